(* Spec/SlcTarget.v — the independent side of C18: what an SLC data-file address MEANS, how it is
   spelled, and a reference SLC/MicroLogix target that executes PCCC commands on a data table.
   Nothing here is derived from pycomm3 or from Model/Slc.v (only the value datatype SlcVal is shared).

   1. [addr]: an address as an ADT {file type; file; element; sub-element (word inside the element);
      bit; count} and [wf_addr]: the grammar of the property (file numbers 1..255, elements 0..255,
      bits 0..15, timer/counter sub-elements, counts).
   2. [spelling] and [render]: every way the grammar spells an address: word form, [/b], the binary
      file bit form [Bf/n] (n = 16*element + bit), [{count}], letter case, leading zeros, optional
      I/O file number and [.word].
   3. [table]: data files as arrays of 16-bit words; [ref_read] / [ref_write]: the reference
      interpretation of an address on a table — no packets involved.
   4. the target: PCCC Execute (service 0x4B on class 0x67 instance 1) carrying CMD 0x0F with
      FNC 0xA2 "protected typed logical read with three address fields" and FNC 0xAB "protected
      typed logical masked write with three address fields" (Allen-Bradley DF1 Protocol and Command
      Set reference manual, 1770-6.5.16, chapter 7):
        request : requestor id (length byte L = 7, counting itself; vendor UINT; serial UDINT),
                  CMD, STS, TNS (2), FNC, byte size, file number, file type, element number,
                  sub-element number [, mask (2), data (byte size)]
                  "file / element / sub-element: values 0..254 in one byte; 0xFF announces a
                  two-byte little-endian value in the next two bytes"  (the 0xFF escape)
        reply   : requestor id echoed, CMD lor 0x40, STS, TNS echoed [, data]
        file type codes: 84 status, 85 bit, 86 timer, 87 counter, 89 integer, 8A float, 8B output,
                  8C input, 91 long; (82 / 83 are tolerated for output / input: the manuals disagree)
        masked write, per 16-bit word: new = (old land lnot mask) lor (data land mask)
        STS 0x10 (illegal command or format) for: unknown CMD/FNC, unknown file, wrong file type,
                  odd or zero size, sub-element beyond the element, range beyond the end of the
                  file, data length different from the byte size, malformed address fields.
   Definitions only; lemmas in Proofs/SlcTargetP.v. *)
From PV Require Import Base.Bytes Model.SlcVal Spec.TargetIface.
Open Scope Z_scope.

Definition text := list Z.

(* ------------------------------------------------------------------ 1. addresses *)
Inductive ftype := FN | FB | FF | FL | FS | FI | FO | FT | FC.

Definition ftype_eqb (a b : ftype) : bool :=
  match a, b with
  | FN, FN | FB, FB | FF, FF | FL, FL | FS, FS | FI, FI | FO, FO | FT, FT | FC, FC => true
  | _, _ => false
  end.

Record addr := {
  a_ft : ftype;
  a_file : Z;
  a_elem : Z;
  a_sub : Z;                 (* word inside the element: I/O word of the slot; T/C 0 = control, 1 = PRE, 2 = ACC *)
  a_bit : option Z;
  a_count : Z }.

(* words of one element of the data file *)
Definition fixed_ewords (ft : ftype) : option Z :=
  match ft with
  | FN | FB | FS => Some 1
  | FF | FL => Some 2
  | FT | FC => Some 3
  | FI | FO => None                      (* as many words per slot as the I/O configuration has *)
  end.
(* words one addressed value occupies: the unit of {count} *)
Definition vwords (ft : ftype) : Z := match ft with FF | FL => 2 | _ => 1 end.
(* bytes of one element as a typed read / write counts them *)
Definition esize (ft : ftype) : Z :=
  match ft with FF | FL => 4 | FT | FC => 6 | _ => 2 end.

Definition type_code (ft : ftype) : Z :=
  match ft with
  | FS => 132 | FB => 133 | FT => 134 | FC => 135 | FN => 137 | FF => 138 | FO => 139 | FI => 140 | FL => 145
  end.
Definition ftype_of_code (c : Z) : option ftype :=
  if c =? 132 then Some FS else if c =? 133 then Some FB else if c =? 134 then Some FT
  else if c =? 135 then Some FC else if c =? 137 then Some FN else if c =? 138 then Some FF
  else if (c =? 139) || (c =? 130) then Some FO else if (c =? 140) || (c =? 131) then Some FI
  else if c =? 145 then Some FL else None.

Definition zin (lo hi z : Z) : bool := (lo <=? z) && (z <=? hi).

(* status bits of timers (EN 15, TT 14, DN 13) and counters (CU 15, CD 14, DN 13, OV 12, UN 11, UA 10) *)
Definition tc_bit_ok (ft : ftype) (b : Z) : bool :=
  match ft with FT => zin 13 15 b | FC => zin 10 15 b | _ => false end.

Definition wf_addr (a : addr) : bool :=
  zin 0 255 (a_elem a) &&
  match a_ft a with
  | FN | FB =>
      zin 1 255 (a_file a) && (a_sub a =? 0) &&
      match a_bit a with
      | Some b => zin 0 15 b && (a_count a =? 1)
      | None => zin 1 127 (a_count a)
      end
  | FF | FL =>
      zin 1 255 (a_file a) && (a_sub a =? 0) &&
      match a_bit a with Some _ => false | None => zin 1 63 (a_count a) end
  | FS =>
      (a_file a =? 2) && (a_sub a =? 0) &&
      match a_bit a with
      | Some b => zin 0 15 b && (a_count a =? 1)
      | None => zin 1 127 (a_count a)
      end
  | FI | FO =>
      (a_file a =? (match a_ft a with FO => 0 | _ => 1 end)) && zin 0 254 (a_sub a) && (a_count a =? 1) &&
      match a_bit a with Some b => zin 0 15 b | None => true end
  | FT | FC =>
      zin 1 255 (a_file a) && (a_count a =? 1) &&
      match a_bit a with
      | Some b => (a_sub a =? 0) && tc_bit_ok (a_ft a) b
      | None => zin 1 2 (a_sub a)
      end
  end.

(* ------------------------------------------------------------------ 2. spellings *)
Record spelling := {
  sp_lower : bool;               (* file-type letter in lower case *)
  sp_mn_lower : list bool;       (* timer/counter mnemonic: which of its letters are lower case *)
  sp_pad_file : nat;             (* minimal widths = leading zeros *)
  sp_pad_elem : nat;
  sp_pad_sub : nat;
  sp_pad_bit : nat;
  sp_pad_count : nat;
  sp_flat_bit : bool;            (* binary files: Bf/n instead of Bf:e/b *)
  sp_io_file : bool;             (* I/O: spell the file number (O0:, I1:) *)
  sp_io_word : bool;             (* I/O: spell ".0" for word 0 *)
  sp_count1 : bool }.            (* spell "{1}" for a count of one *)

Definition dig (d : Z) : Z := 48 + d.
(* decimal digits of 0 <= n < 10000, no leading zeros *)
Definition digits_min (n : Z) : text :=
  if n <? 10 then [dig n]
  else if n <? 100 then [dig (n / 10); dig (n mod 10)]
  else if n <? 1000 then [dig (n / 100); dig (n / 10 mod 10); dig (n mod 10)]
  else [dig (n / 1000 mod 10); dig (n / 100 mod 10); dig (n / 10 mod 10); dig (n mod 10)].
Definition render_num (w : nat) (n : Z) : text :=
  let d := digits_min n in repeat 48 (w - length d) ++ d.
Definition num_width (w : nat) (n : Z) : nat := Nat.max w (length (digits_min n)).

Definition lc (c : Z) : Z := if (65 <=? c) && (c <=? 90) then c + 32 else c.
Fixpoint apply_case (flags : list bool) (t : text) {struct t} : text :=
  match t with
  | [] => []
  | c :: r => match flags with
              | [] => c :: r
              | f :: fr => (if f then lc c else c) :: apply_case fr r
              end
  end.

Definition letter (ft : ftype) : Z :=
  match ft with
  | FN => 78 | FB => 66 | FF => 70 | FL => 76 | FS => 83 | FI => 73 | FO => 79 | FT => 84 | FC => 67
  end.

(* mnemonic of a timer / counter sub-element or status bit (SLC 500 instruction set reference) *)
Definition tc_mnemonic (ft : ftype) (sub : Z) (bit : option Z) : option text :=
  match bit with
  | None => if sub =? 1 then Some [80; 82; 69] (* PRE *) else if sub =? 2 then Some [65; 67; 67] (* ACC *) else None
  | Some b =>
      if negb (sub =? 0) then None else
      match ft with
      | FT => if b =? 15 then Some [69; 78] (* EN *) else if b =? 14 then Some [84; 84] (* TT *)
              else if b =? 13 then Some [68; 78] (* DN *) else None
      | FC => if b =? 15 then Some [67; 85] (* CU *) else if b =? 14 then Some [67; 68] (* CD *)
              else if b =? 13 then Some [68; 78] (* DN *) else if b =? 12 then Some [79; 86] (* OV *)
              else if b =? 11 then Some [85; 78] (* UN *) else if b =? 10 then Some [85; 65] (* UA *) else None
      | _ => None
      end
  end.

(* the pieces of a spelled address: file letter, digit runs as written, mnemonic as written *)
Record raw := {
  r_ft : ftype; r_lower : bool;
  r_file : option text;          (* None = not spelled (status file; optional for I/O) *)
  r_elem : text;
  r_sub : option text;           (* I/O: ".word" *)
  r_bit : option text;           (* "/bit"; in the flat form the bit number n of Bf/n *)
  r_count : option text;         (* "{count}" *)
  r_flat : bool;                 (* Bf/n *)
  r_mn : text }.                 (* timer / counter mnemonic *)

Definition opt_text (o : option text) : text := match o with Some t => t | None => [] end.

Definition render_raw (r : raw) : text :=
  let L := (if r_lower r then lc (letter (r_ft r)) else letter (r_ft r)) in
  match r_ft r with
  | FT | FC => L :: opt_text (r_file r) ++ 58 :: r_elem r ++ 46 :: r_mn r
  | _ =>
      if r_flat r then L :: opt_text (r_file r) ++ 47 :: opt_text (r_bit r)
             ++ (match r_count r with Some c => 123 :: c ++ [125] | None => [] end)
      else L :: opt_text (r_file r) ++ 58 :: r_elem r
             ++ (match r_sub r with Some w => 46 :: w | None => [] end)
             ++ (match r_bit r with Some b => 47 :: b | None => [] end)
             ++ (match r_count r with Some c => 123 :: c ++ [125] | None => [] end)
  end.

Definition is_io (ft : ftype) : bool := match ft with FI | FO => true | _ => false end.
Definition is_tc (ft : ftype) : bool := match ft with FT | FC => true | _ => false end.

Definition raw_of (sp : spelling) (a : addr) : raw :=
  let ft := a_ft a in
  let flat := match ft, a_bit a with FB, Some _ => sp_flat_bit sp | _, _ => false end in
  {| r_ft := ft; r_lower := sp_lower sp;
     r_file := match ft with
               | FS => None
               | FI | FO => if sp_io_file sp then Some (render_num (sp_pad_file sp) (a_file a)) else None
               | _ => Some (render_num (sp_pad_file sp) (a_file a))
               end;
     r_elem := render_num (sp_pad_elem sp) (a_elem a);
     r_sub := if is_io ft && (negb (a_sub a =? 0) || sp_io_word sp)
              then Some (render_num (sp_pad_sub sp) (a_sub a)) else None;
     r_bit := if is_tc ft then None else
              match a_bit a with
              | Some b => Some (render_num (sp_pad_bit sp) (if flat then 16 * a_elem a + b else b))
              | None => None
              end;
     r_count := if is_tc ft then None else
                match a_bit a with
                | Some _ => None
                | None => if negb (a_count a =? 1) || sp_count1 sp
                          then Some (render_num (sp_pad_count sp) (a_count a)) else None
                end;
     r_flat := flat;
     r_mn := match tc_mnemonic ft (a_sub a) (a_bit a) with
             | Some mn => apply_case (sp_mn_lower sp) mn
             | None => []
             end |}.

Definition render (sp : spelling) (a : addr) : text := render_raw (raw_of sp a).

(* ---- spelled addresses whose numbers are arbitrary digit runs (the domain of the rejection clause) *)
Definition is_digit (c : Z) : bool := (48 <=? c) && (c <=? 57).
Definition digit_run (ds : text) : bool := match ds with [] => false | _ => forallb is_digit ds end.
Definition odigit_run (o : option text) : bool := match o with Some d => digit_run d | None => true end.
Definition is_some {A} (o : option A) : bool := match o with Some _ => true | None => false end.
(* the number a digit run denotes *)
Definition num_of (ds : text) : Z := fold_left (fun a c => a * 10 + (c - 48)) ds 0.

(* every letter-case variant of a text *)
Fixpoint case_vars (t : text) : list text :=
  match t with
  | [] => [[]]
  | c :: r => flat_map (fun v => [c :: v; lc c :: v]) (case_vars r)
  end.
Definition tc_names (ft : ftype) : list text :=
  match ft with
  | FT => [[80; 82; 69]; [65; 67; 67]; [69; 78]; [84; 84]; [68; 78]]
  | FC => [[80; 82; 69]; [65; 67; 67]; [67; 85]; [67; 68]; [68; 78]; [79; 86]; [85; 78]; [85; 65]]
  | _ => []
  end.
Definition tc_spellings (ft : ftype) : list text := flat_map case_vars (tc_names ft).
Fixpoint text_mem (t : text) (l : list text) : bool :=
  match l with
  | [] => false
  | x :: r => (if list_eq_dec Z.eq_dec x t then true else false) || text_mem t r
  end.

(* the pieces have the form of an address of the grammar; digit runs of ANY length *)
Definition raw_form (r : raw) : bool :=
  (digit_run (r_elem r) || r_flat r)
  && odigit_run (r_file r) && odigit_run (r_sub r) && odigit_run (r_bit r) && odigit_run (r_count r)
  && match r_ft r with
     | FT | FC => is_some (r_file r) && negb (r_flat r) && text_mem (r_mn r) (tc_spellings (r_ft r))
                  && negb (is_some (r_sub r)) && negb (is_some (r_bit r)) && negb (is_some (r_count r))
     | FS => negb (is_some (r_file r)) && negb (r_flat r) && negb (is_some (r_sub r))
     | FI | FO => negb (r_flat r)
     | FB => is_some (r_file r) && negb (is_some (r_sub r)) && (negb (r_flat r) || is_some (r_bit r))
     | _ => is_some (r_file r) && negb (r_flat r) && negb (is_some (r_sub r))
     end.

(* all numbers inside the ranges of the property: file 1..255 (the I/O file number, when spelled,
   at most 255), element 0..255, bit 0..15, binary-file bit number 0..4095 *)
Definition spec_in_range (r : raw) : bool :=
  match r_ft r with
  | FS => true
  | FI | FO => match r_file r with Some f => num_of f <=? 255 | None => true end
  | _ => match r_file r with Some f => zin 1 255 (num_of f) | None => false end
  end
  && (if r_flat r then match r_bit r with Some n => zin 0 4095 (num_of n) | None => false end
      else zin 0 255 (num_of (r_elem r))
           && match r_bit r with Some b => zin 0 15 (num_of b) | None => true end).

(* some digit run is longer than the grammar allows (3 digits file / element / word, 2 for a bit,
   4 for a binary-file bit number) *)
Definition longer (n : nat) (o : option text) : bool :=
  match o with Some d => (n <? length d)%nat | None => false end.
Definition overlong_field (r : raw) : bool :=          (* ... in an element, word or bit number *)
  (negb (r_flat r) && (3 <? length (r_elem r))%nat) || longer 3 (r_sub r)
  || longer (if r_flat r then 4 else 2) (r_bit r).
Definition overlong (r : raw) : bool := longer 3 (r_file r) || overlong_field r.

(* the digit runs stay within what the grammar allows: 3 digits for file / element / word,
   2 for a bit, 4 for a binary-file bit number *)
Definition wf_spelling (sp : spelling) (a : addr) : bool :=
  (sp_pad_file sp <=? 3)%nat && (sp_pad_elem sp <=? 3)%nat && (sp_pad_sub sp <=? 3)%nat
  && (sp_pad_count sp <=? 6)%nat
  && (match a_ft a, a_bit a with
      | FB, Some _ => if sp_flat_bit sp then (sp_pad_bit sp <=? 4)%nat else (sp_pad_bit sp <=? 2)%nat
      | _, _ => (sp_pad_bit sp <=? 2)%nat
      end).

(* ------------------------------------------------------------------ 3. data table, reference interpretation *)
Record dfile := { df_num : Z; df_ft : ftype; df_ew : Z; df_words : list Z }.
Definition table := list dfile.

Definition word_ok (w : Z) : bool := (0 <=? w) && (w <? 65536).
(* 16-bit words; whole elements *)
Definition dfile_ok (f : dfile) : bool :=
  forallb word_ok (df_words f) && (1 <=? df_ew f)
  && (Z.of_nat (length (df_words f)) mod df_ew f =? 0)
  && match fixed_ewords (df_ft f) with Some k => df_ew f =? k | None => true end.
Definition table_ok (t : table) : bool := forallb dfile_ok t.

Fixpoint find_file (t : table) (n : Z) : option dfile :=
  match t with
  | [] => None
  | f :: r => if df_num f =? n then Some f else find_file r n
  end.
Fixpoint put_file (t : table) (f : dfile) : table :=
  match t with
  | [] => []
  | g :: r => if df_num g =? df_num f then f :: r else g :: put_file r f
  end.

Definition set_words (f : dfile) (ws : list Z) : dfile :=
  {| df_num := df_num f; df_ft := df_ft f; df_ew := df_ew f; df_words := ws |}.

(* replace [length new] words starting at index i *)
Definition upd_words (ws : list Z) (i : nat) (new : list Z) : list Z :=
  firstn i ws ++ new ++ skipn (i + length new) ws.

(* index of the addressed word: element * words-per-element + sub-element *)
Definition word_index (f : dfile) (elem sub : Z) : Z := elem * df_ew f + sub.

(* the words of [n] consecutive values starting at the addressed word, if they exist *)
Definition region (f : dfile) (elem sub nwords : Z) : option (nat * list Z) :=
  let i := word_index f elem sub in
  if (0 <=? elem) && (0 <=? sub) && (sub <? df_ew f) && (0 <? nwords)
     && (i + nwords <=? Z.of_nat (length (df_words f)))
  then Some (Z.to_nat i, firstn (Z.to_nat nwords) (skipn (Z.to_nat i) (df_words f)))
  else None.

Definition s16 (w : Z) : Z := if w <? 32768 then w else w - 65536.
Definition s32 (lo hi : Z) : Z := let u := lo + 65536 * hi in if u <? 2147483648 then u else u - 4294967296.

(* values of a run of words, by file type *)
Fixpoint values_of (ft : ftype) (ws : list Z) : list sval :=
  match ft with
  | FF => match ws with lo :: hi :: r => VF32 (lo + 65536 * hi) :: values_of ft r | _ => [] end
  | FL => match ws with lo :: hi :: r => VInt (s32 lo hi) :: values_of ft r | _ => [] end
  | _ => match ws with w :: r => VInt (s16 w) :: values_of ft r | [] => [] end
  end.

Definition file_for (t : table) (a : addr) : option dfile :=
  match find_file t (a_file a) with
  | Some f => if ftype_eqb (df_ft f) (a_ft a) then Some f else None
  | None => None
  end.

(* what a read of the address returns *)
Definition ref_read (t : table) (a : addr) : option sval :=
  match file_for t a with
  | None => None
  | Some f =>
      match a_bit a with
      | Some b =>
          match region f (a_elem a) (a_sub a) 1 with
          | Some (_, [w]) => Some (VBool (Z.testbit w b))
          | _ => None
          end
      | None =>
          match region f (a_elem a) (a_sub a) (vwords (a_ft a) * a_count a) with
          | Some (_, ws) => match values_of (a_ft a) ws with
                            | [v] => Some v
                            | vs => Some (VList vs)
                            end
          | None => None
          end
      end
  end.

(* words of a value of the file's element type; None = not a value of that type *)
Definition words_of (ft : ftype) (v : sval) : option (list Z) :=
  match ft, v with
  | FF, VF32 bits => if (0 <=? bits) && (bits <? 4294967296) then Some [bits mod 65536; bits / 65536] else None
  | FF, _ => None
  | FL, VInt z => if (-2147483648 <=? z) && (z <? 2147483648)
                  then Some [(z mod 4294967296) mod 65536; (z mod 4294967296) / 65536] else None
  | FL, _ => None
  | _, VInt z => if (-32768 <=? z) && (z <? 32768) then Some [z mod 65536] else None
  | _, _ => None
  end.
Fixpoint words_of_list (ft : ftype) (vs : list sval) : option (list Z) :=
  match vs with
  | [] => Some []
  | v :: r => match words_of ft v, words_of_list ft r with
              | Some a, Some b => Some (a ++ b)
              | _, _ => None
              end
  end.

(* the table after writing [v] to the address; None = no such place / not a value of the type *)
Definition ref_write (t : table) (a : addr) (v : sval) : option table :=
  match file_for t a with
  | None => None
  | Some f =>
      match a_bit a with
      | Some b =>
          match region f (a_elem a) (a_sub a) 1 with
          | Some (i, [w]) =>
              let w' := if truthy v then Z.setbit w b else Z.clearbit w b in
              Some (put_file t (set_words f (upd_words (df_words f) i [w'])))
          | _ => None
          end
      | None =>
          let new := (if a_count a =? 1 then words_of (a_ft a) v
                      else match v with VList vs => if Z.of_nat (length vs) =? a_count a then words_of_list (a_ft a) vs else None
                                      | _ => None end) in
          match new, region f (a_elem a) (a_sub a) (vwords (a_ft a) * a_count a) with
          | Some ws, Some (i, _) => Some (put_file t (set_words f (upd_words (df_words f) i ws)))
          | _, _ => None
          end
      end
  end.

(* ------------------------------------------------------------------ 4. the target *)
Record pccc_cmd := {
  pc_rid : bytes; pc_cmd : Z; pc_sts : Z; pc_tns : bytes; pc_fnc : Z;
  pc_size : Z; pc_file : Z; pc_type : Z; pc_elem : Z; pc_sub : Z; pc_rest : bytes }.

(* an address field: one byte 0..254, or 0xFF + two bytes little-endian *)
Definition parse_field (bs : bytes) : option (Z * bytes) :=
  match bs with
  | [] => None
  | b :: r => if b =? 255 then match r with lo :: hi :: r' => Some (lo + 256 * hi, r') | _ => None end
              else Some (b, r)
  end.

Inductive cmd_parse :=
  | CmdOk (c : pccc_cmd)
  | CmdBadAddr (rid : bytes) (cmd : Z) (tns : bytes)        (* header readable, address fields not *)
  | CmdGarbage.                                             (* not even a PCCC header *)

Definition parse_cmd (data : bytes) : cmd_parse :=
  match data with
  | [] => CmdGarbage
  | l :: _ =>
      if (l <? 1) || (Z.of_nat (length data) <? l + 4) then CmdGarbage else
      let rid := firstn (Z.to_nat l) data in
      match skipn (Z.to_nat l) data with
      | cmd :: sts :: t0 :: t1 :: rest =>
          match rest with
          | fnc :: size :: r1 =>
              match parse_field r1 with
              | Some (file, ty :: r2) =>
                  match parse_field r2 with
                  | Some (elem, r3) =>
                      match parse_field r3 with
                      | Some (sub, r4) =>
                          CmdOk {| pc_rid := rid; pc_cmd := cmd; pc_sts := sts; pc_tns := [t0; t1]; pc_fnc := fnc;
                                   pc_size := size; pc_file := file; pc_type := ty; pc_elem := elem;
                                   pc_sub := sub; pc_rest := r4 |}
                      | None => CmdBadAddr rid cmd [t0; t1]
                      end
                  | None => CmdBadAddr rid cmd [t0; t1]
                  end
              | _ => CmdBadAddr rid cmd [t0; t1]
              end
          | _ => CmdBadAddr rid cmd [t0; t1]
          end
      | _ => CmdGarbage
      end
  end.

Definition le16 (w : Z) : bytes := [w mod 256; w / 256].
Fixpoint words_to_bytes (ws : list Z) : bytes :=
  match ws with [] => [] | w :: r => le16 w ++ words_to_bytes r end.
Fixpoint bytes_to_words (bs : bytes) : list Z :=
  match bs with lo :: hi :: r => (lo + 256 * hi) :: bytes_to_words r | _ => [] end.

Definition mask_word (mask old data : Z) : Z := Z.lor (Z.land old (Z.lnot mask)) (Z.land data mask).

Definition STS_ILLEGAL : Z := 16.

Definition pccc_reply (rid : bytes) (cmd sts : Z) (tns data : bytes) : bytes :=
  rid ++ [Z.lor cmd 64; sts] ++ tns ++ data.

(* the file and word range a command addresses *)
Definition cmd_region (t : table) (c : pccc_cmd) : option (dfile * nat * list Z) :=
  match find_file t (pc_file c), ftype_of_code (pc_type c) with
  | Some f, Some ft =>
      if ftype_eqb (df_ft f) ft && (pc_size c mod 2 =? 0) then
        match region f (pc_elem c) (pc_sub c) (pc_size c / 2) with
        | Some (i, ws) => Some (f, i, ws)
        | None => None
        end
      else None
  | _, _ => None
  end.

Definition exec_cmd (t : table) (c : pccc_cmd) : table * bytes :=
  let fail := (t, pccc_reply (pc_rid c) (pc_cmd c) STS_ILLEGAL (pc_tns c) []) in
  if negb (pc_cmd c =? 15) then fail
  else if pc_fnc c =? 162 then
    match pc_rest c, cmd_region t c with
    | [], Some (_, _, ws) => (t, pccc_reply (pc_rid c) (pc_cmd c) 0 (pc_tns c) (words_to_bytes ws))
    | _, _ => fail
    end
  else if pc_fnc c =? 171 then
    match pc_rest c, cmd_region t c with
    | m0 :: m1 :: data, Some (f, i, ws) =>
        if Z.of_nat (length data) =? pc_size c then
          let mask := m0 + 256 * m1 in
          let new := map (fun od => mask_word mask (fst od) (snd od)) (combine ws (bytes_to_words data)) in
          (put_file t (set_words f (upd_words (df_words f) i new)),
           pccc_reply (pc_rid c) (pc_cmd c) 0 (pc_tns c) [])
        else fail
    | _, _ => fail
    end
  else fail.

(* PCCC Execute: the data of the message-router request -> new table, reply data; None = no PCCC
   header could be read (the message router answers "not enough data") *)
Definition exec_pccc (t : table) (data : bytes) : option (table * bytes) :=
  match parse_cmd data with
  | CmdOk c => Some (exec_cmd t c)
  | CmdBadAddr rid cmd tns => Some (t, pccc_reply rid cmd STS_ILLEGAL tns [])
  | CmdGarbage => None
  end.

Definition PCCC_SERVICE : Z := 75.
Definition PCCC_OBJECT_PATH : bytes := [32; 103; 36; 1].     (* class 0x67, instance 1 *)

Fixpoint bytes_eqb (a b : bytes) : bool :=
  match a, b with
  | [], [] => true
  | x :: a', y :: b' => (x =? y) && bytes_eqb a' b'
  | _, _ => false
  end.

(* a whole message-router request -> new table, whole message-router reply *)
Definition exec_mr (t : table) (req : bytes) : table * bytes :=
  match req with
  | svc :: psz :: r =>
      let path := firstn (Z.to_nat (2 * psz)) r in
      let data := skipn (Z.to_nat (2 * psz)) r in
      if negb (Z.of_nat (length r) <? 2 * psz) && bytes_eqb path PCCC_OBJECT_PATH then
        if svc =? PCCC_SERVICE then
          match exec_pccc t data with
          | Some (t', rep) => (t', [Z.lor svc 128; 0; 0; 0] ++ rep)
          | None => (t, [Z.lor svc 128; 0; 19; 0])            (* 0x13 not enough data *)
          end
        else (t, [Z.lor svc 128; 0; 8; 0])                     (* 0x08 service not supported *)
      else (t, [Z.lor svc 128; 0; 5; 0])                       (* 0x05 path destination unknown *)
  | _ => (t, [128; 0; 19; 0])
  end.

(* the PCCC command the target reads in a whole message-router request (its own parser) *)
Definition target_view (req : bytes) : option pccc_cmd :=
  match req with
  | _ :: psz :: r => match parse_cmd (skipn (Z.to_nat (2 * psz)) r) with CmdOk c => Some c | _ => None end
  | _ => None
  end.

(* the same as a handler behind the reference target core (TARGET.md) *)
Definition slc_handler : handler table :=
  {| h_request := fun t _ _ rq =>
       if bytes_eqb (mr_path rq) PCCC_OBJECT_PATH then
         if mr_service rq =? PCCC_SERVICE then
           match exec_pccc t (mr_data rq) with
           | Some (t', rep) => Some (t', {| rp_status := 0; rp_ext := []; rp_data := rep |}, [EvApp 18 [] (mr_data rq)])
           | None => Some (t, {| rp_status := 19; rp_ext := []; rp_data := [] |}, [EvMalformed PCCC_SERVICE 1])
           end
         else Some (t, {| rp_status := 8; rp_ext := []; rp_data := [] |}, [])
       else None |}.
