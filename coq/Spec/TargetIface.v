(* Spec/TargetIface.v — the seam between the two halves of the reference target (TARGET.md).
   [Spec/TargetCore.v] implements EtherNet/IP encapsulation, sessions, the connection manager,
   UCMM / connected transports, the message-router envelope and the Multiple Service Packet; the
   application objects behind the message router are a [handler].  [Spec/TargetLogix.v] provides
   the Logix handler (tags, symbol and template objects).  Definitions only. *)
From PV Require Import Base.Bytes.
Open Scope Z_scope.

(* how a message-router request reached the target *)
Inductive transport :=
  | TConnected (conn_serial : Z)                 (* SendUnitData on an open class-3 connection *)
  | TUcmm                                        (* SendRRData, message router directly *)
  | TUnconnSend (route : bytes).                 (* SendRRData + Unconnected Send (0x52); the route path bytes as received *)

(* one parsed message-router request: service code, request-path bytes (padded EPATH, without the
   word-count byte), request data *)
Record mr_request := { mr_service : Z; mr_path : bytes; mr_data : bytes }.

(* one message-router reply as the handler gives it: general status, extended status words,
   reply data.  The core adds the envelope (service|0x80, reserved 0, status, ext size). *)
Record mr_reply := { rp_status : Z; rp_ext : list Z; rp_data : bytes }.

(* what the target records about everything it sees (the oracles read this log) *)
Inductive tevent :=
  | EvFrame (cmd : Z) (session : Z) (len : nat)          (* an encapsulation frame arrived *)
  | EvBadFrame (why : Z)                                 (* the strict frame parser rejected it: code of the first violated rule *)
  | EvRequest (t : transport) (seq : option Z) (r : mr_request)   (* a message-router request (embedded ones of a 0x0A too) *)
  | EvReply (status : Z) (len : nat)
  | EvOversize (granted : Z) (got : Z)                   (* a connected data item larger than the negotiated size *)
  | EvReplyTooLarge (granted : Z) (needed : Z)           (* a solicited reply would not fit the negotiated size *)
  | EvMalformed (service : Z) (why : Z)                  (* a request whose length/fields are inconsistent with its own contents *)
  | EvApp (tag : Z) (args : list Z) (data : bytes).      (* handler-specific: e.g. a tag write was executed (tag 1: instance, offset; data) *)

(* The application objects.  [capacity] = the largest message-router REPLY (envelope included) the
   transport can carry back for this request (connected: negotiated size - 2 for the sequence
   count; unconnected: 504 - overhead); a handler must never return more than fits and must use
   the partial-transfer status 0x06 where the service has one.  [None] = the handler does not
   implement the addressed object: the core answers 0x05 (path destination unknown). *)
Record handler (S : Type) := {
  h_request : S -> transport -> Z (* capacity *) -> mr_request -> option (S * mr_reply * list tevent)
}.
Arguments h_request {S}.
