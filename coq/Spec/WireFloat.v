(* Spec/WireFloat.v — C07 reference for REAL / LREAL: IEEE-754 through Flocq.

   Python floats are binary64 values, represented by their bit pattern (a [Z] in [0, 2^64), every
   NaN identified with the canonical quiet NaN — the convention of [val], Model/CodecPrim.v).

     LREAL  the 8 bytes of the binary64 pattern
     REAL   the binary32 value nearest to the binary64 value, ties to even
            ([binary_normalize 24 128 mode_NE], Flocq's verified rounding); a finite double beyond
            the binary32 range is NOT a REAL value (reference: reject);
            decoding a REAL is the exact embedding of binary32 into binary64.

   Nothing here looks at Model/CodecFloat.v (which does the same with integer arithmetic on the
   bit fields); Proofs/CodecWireFloat.v proves the two agree. *)
From Coq Require Import ZArith List Bool.
From Flocq Require Import Core.Zaux IEEE754.BinarySingleNaN IEEE754.Binary IEEE754.Bits.
Open Scope Z_scope.

Definition sp_nan32 : Z := 0x7fc00000.
Definition sp_nan64 : Z := 0x7ff8000000000000.

(* the bit pattern is a NaN: exponent field all ones, fraction non-zero *)
Definition sp_is_nan64 (b : Z) : bool := 0x7ff0000000000000 <? b mod 2 ^ 63.
(* the representation of a double in [val]: 64 bits, NaNs canonical *)
Definition sp_f64_ok (b : Z) : bool :=
  (0 <=? b) && (b <? 2 ^ 64) && (negb (sp_is_nan64 b) || (b =? sp_nan64)).
Definition sp_canon64 (b : Z) : Z := if sp_is_nan64 b then sp_nan64 else b.

(* double bits -> single bits, round to nearest even; None: a finite value beyond the binary32 range *)
Definition spec_real32_of_64 (b : Z) : option Z :=
  match b64_of_bits b with
  | B754_nan _ _ _ _ _ => Some sp_nan32
  | B754_infinity _ _ s => Some (bits_of_b32 (B754_infinity 24 128 s))
  | B754_zero _ _ s => Some (bits_of_b32 (B754_zero 24 128 s))
  | B754_finite _ _ s m e _ =>
      let r := binary_normalize 24 128 (eq_refl _) (eq_refl _) mode_NE (cond_Zopp s (Zpos m)) e s in
      if is_finite 24 128 r then Some (bits_of_b32 r) else None
  end.

(* single bits -> double bits, exact *)
Definition spec_real64_of_32 (b : Z) : Z :=
  match b32_of_bits b with
  | B754_nan _ _ _ _ _ => sp_nan64
  | B754_infinity _ _ s => bits_of_b64 (B754_infinity 53 1024 s)
  | B754_zero _ _ s => bits_of_b64 (B754_zero 53 1024 s)
  | B754_finite _ _ s m e _ =>
      bits_of_b64 (binary_normalize 53 1024 (eq_refl _) (eq_refl _) mode_NE (cond_Zopp s (Zpos m)) e s)
  end.
