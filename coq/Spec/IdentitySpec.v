(* Spec/IdentitySpec.v — the independent side of C16: what a device reports (an [ident]), how the
   CIP / EtherNet/IP specifications put it on the wire (ListIdentity reply, CIP Vol 2 2-4.2;
   Identity object Get_Attributes_All reply inside a SendRRData reply, CIP Vol 1 5A-2 and
   Vol 2 2-4.7), and what the client has to hand back for it ([view_*]).  Written field by field
   with explicit div/mod arithmetic; nothing here is taken from the model (Model/Identity.v imports
   this file only for the record types of the expected dicts). The vendor / product-type / keyswitch
   texts are the regenerated tables Gen/Vendors.v and Gen/Status.v. *)
From Coq Require Import String.
From PV Require Import Base.Bytes Base.Proto.
From PV Require Gen.Vendors Gen.Status.
Open Scope Z_scope.

(* ------------------------------------------------------------------ expected Python dicts *)
(* {'vendor','product_type','product_code','revision':{'major','minor'},'status','serial','product_name'} *)
Record mi_dict := {
  d_vendor : list Z;          (* text *)
  d_product_type : list Z;    (* text *)
  d_product_code : Z;
  d_major : Z;
  d_minor : Z;
  d_status : list Z;          (* bytes *)
  d_serial : list Z;          (* text *)
  d_product_name : list Z     (* text *)
}.
(* the ListIdentity dict: the above + 'encap_protocol_version', 'ip_address', 'state' *)
Record li_dict := { l_encap : Z; l_ip : list Z; l_id : mi_dict; l_state : Z }.
(* get_plc_info: the Identity dict + 'keyswitch' *)
Record plc_dict := { p_id : mi_dict; p_keyswitch : list Z }.

(* ------------------------------------------------------------------ what a device reports *)
Record ident := {
  i_vendor : Z;          (* UINT  *)
  i_product_type : Z;    (* UINT  (Device Type) *)
  i_product_code : Z;    (* UINT  *)
  i_major : Z;           (* USINT *)
  i_minor : Z;           (* USINT *)
  i_status : Z;          (* WORD, sent little-endian *)
  i_serial : Z;          (* UDINT *)
  i_name : list Z;       (* SHORT_STRING, Latin-1 code points *)
  (* ListIdentity item only *)
  i_encap_version : Z;   (* UINT *)
  i_sin_family : Z;      (* big-endian 16 bit *)
  i_sin_port : Z;        (* big-endian 16 bit *)
  i_ip : Z;              (* IPv4 address as a 32-bit number, sent in network order *)
  i_state : Z            (* USINT *)
}.

Definition in16 (v : Z) : bool := (0 <=? v) && (v <? 65536).
Definition in8 (v : Z) : bool := (0 <=? v) && (v <? 256).
Definition in32 (v : Z) : bool := (0 <=? v) && (v <? 4294967296).

Definition fields_in_range (i : ident) : bool :=
  in16 (i_vendor i) && in16 (i_product_type i) && in16 (i_product_code i)
  && in8 (i_major i) && in8 (i_minor i) && in16 (i_status i) && in32 (i_serial i)
  && (length (i_name i) <=? 255)%nat && forallb in8 (i_name i)
  && in16 (i_encap_version i) && in16 (i_sin_family i) && in16 (i_sin_port i) && in32 (i_ip i)
  && in8 (i_state i).

(* ------------------------------------------------------------------ wire encodings, by arithmetic *)
Definition spec_u16le (v : Z) : list Z := [v mod 256; v / 256].
Definition spec_u32le (v : Z) : list Z := [v mod 256; (v / 256) mod 256; (v / 65536) mod 256; v / 16777216].
Definition spec_u16be (v : Z) : list Z := [v / 256; v mod 256].
Definition spec_u32be (v : Z) : list Z := [v / 16777216; (v / 65536) mod 256; (v / 256) mod 256; v mod 256].
Definition spec_short_string (s : list Z) : list Z := Z.of_nat (length s) :: s.

(* Identity object, attributes 1..7 in order (Get_Attributes_All) *)
Definition spec_identity_object (i : ident) : list Z :=
  spec_u16le (i_vendor i) ++ spec_u16le (i_product_type i) ++ spec_u16le (i_product_code i)
  ++ [i_major i; i_minor i] ++ spec_u16le (i_status i) ++ spec_u32le (i_serial i)
  ++ spec_short_string (i_name i).

(* CIP Identity item (type 0x0C) of a ListIdentity reply: protocol version, socket address
   (sin_family, sin_port, sin_addr big-endian, sin_zero), the identity attributes, the state *)
Definition spec_list_identity_item (i : ident) : list Z :=
  spec_u16le (i_encap_version i)
  ++ spec_u16be (i_sin_family i) ++ spec_u16be (i_sin_port i) ++ spec_u32be (i_ip i) ++ zeros 8
  ++ spec_identity_object i ++ [i_state i].

(* 24-byte encapsulation header *)
Definition spec_encap_header (cmd len session status : Z) (ctx : list Z) (options : Z) : list Z :=
  spec_u16le cmd ++ spec_u16le len ++ spec_u32le session ++ spec_u32le status ++ ctx ++ spec_u32le options.

Definition spec_list_identity_reply (ctx : list Z) (i : ident) : list Z :=
  let item := spec_list_identity_item i in
  let body := spec_u16le 1 (* item count *) ++ spec_u16le 12 (* 0x0C *) ++ spec_u16le (Z.of_nat (length item)) ++ item in
  spec_encap_header 99 (* 0x63 *) (Z.of_nat (length body)) 0 0 ctx 0 ++ body.

(* SendRRData reply carrying the success reply to Get_Attributes_All (service 0x01 | 0x80) of the
   Identity object; [extra] = further attributes a device may append (state, heartbeat, ...).
   The reply to a request routed with Unconnected Send has the same layout. *)
Definition spec_identity_object_reply (session : Z) (ctx : list Z) (i : ident) (extra : list Z) : list Z :=
  let cip := [129; 0; 0; 0] ++ spec_identity_object i ++ extra in
  let body := zeros 4 (* interface handle *) ++ spec_u16le 0 (* timeout *) ++ spec_u16le 2 (* item count *)
              ++ spec_u16le 0 ++ spec_u16le 0           (* null address item *)
              ++ spec_u16le 178 (* 0xB2 unconnected data item *) ++ spec_u16le (Z.of_nat (length cip)) ++ cip in
  spec_encap_header 111 (* 0x6F *) (Z.of_nat (length body)) session 0 ctx 0 ++ body.

(* ------------------------------------------------------------------ what the client must return *)
Definition unknown : list Z := zs_of_string "UNKNOWN".

(* the text a table gives for an id *)
Fixpoint tbl_find {A} (t : list (Z * A)) (k : Z) : option A :=
  match t with
  | [] => None
  | (k', v) :: r => if k' =? k then Some v else tbl_find r k
  end.
Definition name_or_unknown (t : list (Z * list Z)) (k : Z) : list Z :=
  match tbl_find t k with Some n => n | None => unknown end.

(* exactly eight lower-case hex digits, most significant first *)
Definition hexchars : list Z := zs_of_string "0123456789abcdef".
Definition hexchar (d : Z) : Z := nth (Z.to_nat d) hexchars 63.
Definition hex8 (n : Z) : list Z :=
  [hexchar (n / 268435456 mod 16); hexchar (n / 16777216 mod 16); hexchar (n / 1048576 mod 16);
   hexchar (n / 65536 mod 16); hexchar (n / 4096 mod 16); hexchar (n / 256 mod 16);
   hexchar (n / 16 mod 16); hexchar (n mod 16)].
(* reading hex text back *)
Fixpoint index_of (c : Z) (l : list Z) (i : Z) : option Z :=
  match l with
  | [] => None
  | x :: r => if x =? c then Some i else index_of c r (i + 1)
  end.
Definition unhex (s : list Z) : option Z :=
  fold_left (fun acc c => match acc, index_of c hexchars 0 with
                          | Some a, Some d => Some (16 * a + d)
                          | _, _ => None
                          end) s (Some 0).

(* dotted quad of a 32-bit address *)
Definition dec_octet (o : Z) : list Z :=
  if o <? 10 then [48 + o]
  else if o <? 100 then [48 + o / 10; 48 + o mod 10]
  else [48 + o / 100; 48 + (o / 10) mod 10; 48 + o mod 10].
Definition ip_text (ip : Z) : list Z :=
  dec_octet (ip / 16777216) ++ [46] ++ dec_octet ((ip / 65536) mod 256) ++ [46]
  ++ dec_octet ((ip / 256) mod 256) ++ [46] ++ dec_octet (ip mod 256).

Definition view_module (i : ident) : mi_dict :=
  {| d_vendor := name_or_unknown Gen.Vendors.vendors (i_vendor i);
     d_product_type := name_or_unknown Gen.Status.product_types (i_product_type i);
     d_product_code := i_product_code i;
     d_major := i_major i;
     d_minor := i_minor i;
     d_status := [i_status i mod 256; i_status i / 256];
     d_serial := hex8 (i_serial i);
     d_product_name := i_name i |}.

Definition view_list (i : ident) : li_dict :=
  {| l_encap := i_encap_version i; l_ip := ip_text (i_ip i); l_id := view_module i; l_state := i_state i |}.

(* keyswitch text: table[status byte 0][status byte 1], "UNKNOWN" when either is absent *)
Definition spec_keyswitch (b0 b1 : Z) : list Z :=
  match tbl_find Gen.Status.keyswitch b0 with
  | Some sub => match tbl_find sub b1 with Some s => s | None => unknown end
  | None => unknown
  end.
Definition view_plc (i : ident) : plc_dict :=
  {| p_id := view_module i; p_keyswitch := spec_keyswitch (i_status i mod 256) (i_status i / 256) |}.
