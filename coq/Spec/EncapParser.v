(* Spec/EncapParser.v — the independent oracle of C11: a STRICT parser of EtherNet/IP
   encapsulation frames, written from the EtherNet/IP adaptation of CIP (Vol 2, ch. 2:
   2-3 encapsulation header, 2-4 commands, 2-6 common packet format).  Nothing here is derived
   from Model/*.v.  Definitions only.

     header (24 bytes, little-endian):
        command UINT | length UINT (= number of bytes that FOLLOW the header) | session handle UDINT
        | status UDINT (0 in a request) | sender context 8 bytes | options UDINT (0)
     NOP 0x00               any data (ignored by the receiver)
     ListServices 0x04, ListIdentity 0x63, ListInterfaces 0x64, UnRegisterSession 0x66 : no data
     RegisterSession 0x65   protocol version UINT = 1, option flags UINT = 0
     SendRRData 0x6F / SendUnitData 0x70 :
        interface handle UDINT = 0 | timeout UINT | item count UINT = 2
        | address item: type UINT, length UINT, contents  (null 0x0000 with length 0, or connected
          address 0x00A1 with length 4 = connection identifier)
        | data item: type UINT, length UINT, contents (unconnected 0x00B2, or connected 0x00B1 whose
          contents start with the 16-bit sequence count, so length >= 2)
        each item length = its contents exactly, nothing after the data item;
        0x6F carries (null, 0xB2), 0x70 carries (0xA1, 0xB1).

   [parse_frame] returns the parsed frame, or the CODE OF THE FIRST VIOLATED RULE, checked in
   this order:
      1  some element is not a byte (outside 0..255)
      2  shorter than the 24-byte header
      3  length field <> number of bytes following the header
      4  command not in {0x00, 0x04, 0x63, 0x64, 0x65, 0x66, 0x6F, 0x70}
      5  status field <> 0
      6  options field <> 0
     10  RegisterSession: data is not exactly 4 bytes
     11  RegisterSession: protocol version <> 1
     12  RegisterSession: option flags <> 0
     13  ListServices / ListIdentity / ListInterfaces / UnRegisterSession: data not empty
     20  SendRRData / SendUnitData: data shorter than interface handle + timeout + item count
     21  interface handle <> 0
     22  item count <> 2
     23  address item header (type, length) truncated
     24  address item type is neither 0x0000 nor 0x00A1
     25  address item length wrong for its type (null: 0, connected: 4)
     26  address item contents truncated
     27  data item header truncated
     28  data item type is neither 0x00B1 nor 0x00B2
     29  data item length larger than the bytes that remain
     30  bytes left over after the data item
     31  connected data item shorter than the 2-byte sequence count
     32  item types do not match the command (0x6F: null + 0xB2, 0x70: 0xA1 + 0xB1)
   (Codes >= 100 are not produced here: Spec/TargetCore.v uses them for stateful rules.) *)
From PV Require Import Base.Bytes.
Open Scope Z_scope.

Inductive res_or_code (A : Type) := RcOk (a : A) | RcErr (code : Z).
Arguments RcOk {A} a.
Arguments RcErr {A} code.

(* ---------------------------------------------------------------- small readers (shared with MRParser / TargetCore) *)
Definition blen (bs : bytes) : Z := Z.of_nat (List.length bs).
Definition u16 (a b : Z) : Z := a + 256 * b.
Definition u32 (a b c d : Z) : Z := a + 256 * (b + 256 * (c + 256 * d)).

(* the first n bytes and the rest; None when there are fewer than n (or n < 0) *)
Definition takez (n : Z) (bs : bytes) : option (bytes * bytes) :=
  if (0 <=? n) && (n <=? blen bs)
  then Some (firstn (Z.to_nat n) bs, skipn (Z.to_nat n) bs) else None.

(* ---------------------------------------------------------------- frames *)
Definition CMD_NOP : Z := 0.
Definition CMD_LIST_SERVICES : Z := 4.
Definition CMD_LIST_IDENTITY : Z := 99.        (* 0x63 *)
Definition CMD_LIST_INTERFACES : Z := 100.     (* 0x64 *)
Definition CMD_REGISTER : Z := 101.            (* 0x65 *)
Definition CMD_UNREGISTER : Z := 102.          (* 0x66 *)
Definition CMD_RRDATA : Z := 111.              (* 0x6F *)
Definition CMD_UNITDATA : Z := 112.            (* 0x70 *)
Definition ITEM_NULL : Z := 0.
Definition ITEM_CONN_ADDR : Z := 161.          (* 0x00A1 *)
Definition ITEM_CONN_DATA : Z := 177.          (* 0x00B1 *)
Definition ITEM_UNCONN_DATA : Z := 178.        (* 0x00B2 *)

Inductive addr_item := AddrNull | AddrConn (cid : Z).

Inductive fbody :=
  | BNop (data : bytes)
  | BEmpty
  | BRegister                                        (* version 1, flags 0 *)
  | BCpf (timeout : Z) (addr : addr_item) (dtype : Z) (data : bytes).

Record frame := { f_cmd : Z; f_session : Z; f_context : bytes; f_body : fbody }.

Definition known_command (c : Z) : bool :=
  (c =? CMD_NOP) || (c =? CMD_LIST_SERVICES) || (c =? CMD_LIST_IDENTITY) || (c =? CMD_LIST_INTERFACES)
  || (c =? CMD_REGISTER) || (c =? CMD_UNREGISTER) || (c =? CMD_RRDATA) || (c =? CMD_UNITDATA).

Definition parse_cpf (cmd : Z) (body : bytes) : res_or_code fbody :=
  match body with
  | i0 :: i1 :: i2 :: i3 :: t0 :: t1 :: c0 :: c1 :: r =>
      if negb (u32 i0 i1 i2 i3 =? 0) then RcErr 21 else
      if negb (u16 c0 c1 =? 2) then RcErr 22 else
      match r with
      | a0 :: a1 :: l0 :: l1 :: r1 =>
          let aty := u16 a0 a1 in
          let al := u16 l0 l1 in
          if negb ((aty =? ITEM_NULL) || (aty =? ITEM_CONN_ADDR)) then RcErr 24 else
          if negb (al =? (if aty =? ITEM_NULL then 0 else 4)) then RcErr 25 else
          match takez al r1 with
          | None => RcErr 26
          | Some (ad, r2) =>
              match r2 with
              | d0 :: d1 :: m0 :: m1 :: r3 =>
                  let dty := u16 d0 d1 in
                  let dl := u16 m0 m1 in
                  if negb ((dty =? ITEM_CONN_DATA) || (dty =? ITEM_UNCONN_DATA)) then RcErr 28 else
                  if blen r3 <? dl then RcErr 29 else
                  if dl <? blen r3 then RcErr 30 else
                  if (dty =? ITEM_CONN_DATA) && (dl <? 2) then RcErr 31 else
                  if negb (if cmd =? CMD_RRDATA
                           then (aty =? ITEM_NULL) && (dty =? ITEM_UNCONN_DATA)
                           else (aty =? ITEM_CONN_ADDR) && (dty =? ITEM_CONN_DATA)) then RcErr 32 else
                  RcOk (BCpf (u16 t0 t1)
                             (if aty =? ITEM_NULL then AddrNull else AddrConn (le_dec ad)) dty r3)
              | _ => RcErr 27
              end
          end
      | _ => RcErr 23
      end
  | _ => RcErr 20
  end.

Definition parse_body (cmd : Z) (body : bytes) : res_or_code fbody :=
  if cmd =? CMD_NOP then RcOk (BNop body)
  else if cmd =? CMD_REGISTER then
    match body with
    | [v0; v1; o0; o1] =>
        if negb (u16 v0 v1 =? 1) then RcErr 11
        else if negb (u16 o0 o1 =? 0) then RcErr 12
        else RcOk BRegister
    | _ => RcErr 10
    end
  else if (cmd =? CMD_RRDATA) || (cmd =? CMD_UNITDATA) then parse_cpf cmd body
  else match body with [] => RcOk BEmpty | _ => RcErr 13 end.

(* the 24-byte header alone: command, length, session, status, context, options, and what follows *)
Record header := { h_cmd : Z; h_len : Z; h_session : Z; h_status : Z; h_context : bytes; h_options : Z }.

Definition parse_header (bs : bytes) : option (header * bytes) :=
  match bs with
  | c0 :: c1 :: l0 :: l1 :: s0 :: s1 :: s2 :: s3 :: e0 :: e1 :: e2 :: e3
    :: x0 :: x1 :: x2 :: x3 :: x4 :: x5 :: x6 :: x7 :: o0 :: o1 :: o2 :: o3 :: body =>
      Some ({| h_cmd := u16 c0 c1; h_len := u16 l0 l1; h_session := u32 s0 s1 s2 s3;
               h_status := u32 e0 e1 e2 e3; h_context := [x0; x1; x2; x3; x4; x5; x6; x7];
               h_options := u32 o0 o1 o2 o3 |}, body)
  | _ => None
  end.

Definition parse_frame (bs : bytes) : res_or_code frame :=
  if negb (bytes_ok bs) then RcErr 1 else
  match parse_header bs with
  | None => RcErr 2
  | Some (h, body) =>
      if negb (h_len h =? blen body) then RcErr 3 else
      if negb (known_command (h_cmd h)) then RcErr 4 else
      if negb (h_status h =? 0) then RcErr 5 else
      if negb (h_options h =? 0) then RcErr 6 else
      match parse_body (h_cmd h) body with
      | RcErr c => RcErr c
      | RcOk b => RcOk {| f_cmd := h_cmd h; f_session := h_session h; f_context := h_context h; f_body := b |}
      end
  end.

(* ---------------------------------------------------------------- the spec-side builder (for the
   non-vacuity lemma [parse_frame (mk_frame f) = RcOk f], Proofs/TargetCoreP.v, and for the
   replies of the target) *)
Definition mk_header (cmd len session status : Z) (context : bytes) (options : Z) : bytes :=
  le_enc 2 cmd ++ le_enc 2 len ++ le_enc 4 session ++ le_enc 4 status ++ context ++ le_enc 4 options.

Definition addr_bytes (a : addr_item) : bytes :=
  match a with
  | AddrNull => [0; 0; 0; 0]
  | AddrConn cid => le_enc 2 ITEM_CONN_ADDR ++ [4; 0] ++ le_enc 4 cid
  end.

Definition mk_cpf (timeout : Z) (a : addr_item) (dtype : Z) (data : bytes) : bytes :=
  [0; 0; 0; 0] ++ le_enc 2 timeout ++ [2; 0] ++ addr_bytes a
  ++ le_enc 2 dtype ++ le_enc 2 (blen data) ++ data.

Definition body_bytes (b : fbody) : bytes :=
  match b with
  | BNop d => d
  | BEmpty => []
  | BRegister => [1; 0; 0; 0]
  | BCpf t a dt d => mk_cpf t a dt d
  end.

Definition mk_frame (f : frame) : bytes :=
  let body := body_bytes (f_body f) in
  mk_header (f_cmd f) (blen body) (f_session f) 0 (f_context f) 0 ++ body.

(* well-formed frames: exactly the frames [parse_frame] can return *)
Definition body_wf (cmd : Z) (b : fbody) : bool :=
  match b with
  | BNop d => (cmd =? CMD_NOP) && bytes_ok d && (blen d <? 65536)
  | BEmpty => (cmd =? CMD_LIST_SERVICES) || (cmd =? CMD_LIST_IDENTITY) || (cmd =? CMD_LIST_INTERFACES)
              || (cmd =? CMD_UNREGISTER)
  | BRegister => cmd =? CMD_REGISTER
  | BCpf t a dt d =>
      (0 <=? t) && (t <? 65536) && bytes_ok d
      && (match a with
          | AddrNull => (cmd =? CMD_RRDATA) && (dt =? ITEM_UNCONN_DATA) && (blen d <? 65536 - 16)
          | AddrConn cid => (cmd =? CMD_UNITDATA) && (dt =? ITEM_CONN_DATA) && (0 <=? cid) && (cid <? 4294967296)
                            && (2 <=? blen d) && (blen d <? 65536 - 20)
          end)
  end.

Definition frame_wf (f : frame) : bool :=
  (0 <=? f_session f) && (f_session f <? 4294967296)
  && bytes_ok (f_context f) && (blen (f_context f) =? 8)
  && body_wf (f_cmd f) (f_body f).
