(* Spec/MRParser.v — the independent oracle of C14: the target's message-router request parser,
   the Unconnected Send unwrapper, and the small EPATH readers the target needs to route a request
   (logical class / instance / attribute paths, port-segment routes).  Written from CIP Vol 1
   (2-4 message router request format, 3-5.5.4 Unconnected Send, Appendix C-1.4 segments).
   Nothing here is derived from Model/*.v.  Definitions only.

   Message-router request:   service USINT (bit 7 clear) | request path size USINT (16-bit words)
                             | request path (padded EPATH, 2 x size bytes) | request data
   [parse_mr] codes:  1 empty   2 service code has the reply bit (>= 0x80)   3 path size missing
                      4 request path truncated (fewer than 2 x size bytes follow)

   Unconnected Send request data (service 0x52 to class 6 instance 1):
        priority/time-tick USINT | time-out ticks USINT | embedded message length UINT
        | embedded message-router request | one pad byte 00 iff that length is odd
        | route path size USINT (words) | reserved USINT = 0 | route path (port segments)
   [parse_ucsend] codes:
        1 shorter than priority + ticks + length     2 embedded length larger than what follows
        3 pad byte missing (odd length)               4 pad byte not zero
        5 route path size / reserved byte missing     6 reserved byte not zero
        7 route path shorter than 2 x size            8 bytes left over after the route path
        9 route path is not a sequence of well-formed port segments
        20 + c : the embedded message is not a message-router request ([parse_mr] code c) *)
From PV Require Import Base.Bytes Spec.EncapParser Spec.TargetIface.
Open Scope Z_scope.

Definition parse_mr (bs : bytes) : res_or_code mr_request :=
  match bs with
  | [] => RcErr 1
  | svc :: r =>
      if 128 <=? svc then RcErr 2 else
      match r with
      | [] => RcErr 3
      | w :: r1 =>
          match takez (2 * w) r1 with
          | None => RcErr 4
          | Some (p, d) => RcOk {| mr_service := svc; mr_path := p; mr_data := d |}
          end
      end
  end.

(* spec-side builder (non-vacuity: [parse_mr (mk_mr r) = RcOk r] for well-formed r) *)
Definition mk_mr (r : mr_request) : bytes :=
  mr_service r :: (blen (mr_path r) / 2) :: mr_path r ++ mr_data r.
Definition mr_wf (r : mr_request) : bool :=
  (0 <=? mr_service r) && (mr_service r <? 128) && Z.even (blen (mr_path r)) && (blen (mr_path r) <? 512).

(* ---------------------------------------------------------------- logical paths *)
(* logical segment: 001 | type (3 bits: 0 class, 1 instance, 2 member, 3 connection point,
   4 attribute) | format (00 8-bit, 01 16-bit, 10 32-bit); a 00 pad byte precedes 16/32-bit values;
   32-bit only for instance / member / connection point. *)
Definition parse_logical (b : Z) (r : bytes) : option (Z * Z * bytes) :=
  let lt := (b / 4) mod 8 in
  let fmt := b mod 4 in
  if negb (b / 32 =? 1) then None
  else if 4 <? lt then None
  else if fmt =? 0 then
    match r with v :: r' => Some (lt, v, r') | [] => None end
  else if fmt =? 1 then
    match r with 0 :: lo :: hi :: r' => Some (lt, u16 lo hi, r') | _ => None end
  else if fmt =? 2 then
    if (1 <=? lt) && (lt <=? 3) then
      match r with 0 :: b0 :: b1 :: b2 :: b3 :: r' => Some (lt, u32 b0 b1 b2 b3, r') | _ => None end
    else None
  else None.

Fixpoint parse_logicals (fuel : nat) (bs : bytes) : option (list (Z * Z)) :=
  match bs with
  | [] => Some []
  | b :: r =>
      match fuel with
      | O => None
      | S f =>
          match parse_logical b r with
          | None => None
          | Some (lt, v, r') =>
              match parse_logicals f r' with
              | Some l => Some ((lt, v) :: l)
              | None => None
              end
          end
      end
  end.

(* class, instance, optional attribute — the only path shape the core routes on *)
Definition path_cia (p : bytes) : option (Z * Z * option Z) :=
  match parse_logicals (List.length p) p with
  | Some [(0, c); (1, i)] => Some (c, i, None)
  | Some [(0, c); (1, i); (4, a)] => Some (c, i, Some a)
  | _ => None
  end.

(* ---------------------------------------------------------------- port segments / routes *)
(* port segment: 000 | extended-link-address flag (bit 4) | port identifier (bits 3..0; 0 reserved,
   15 = 16-bit port number follows); link address = one byte, or (flag set) a size byte then that
   many bytes; padded with 00 to an even total length. -> total length of the segment *)
Definition port_seg_len (b : Z) (r : bytes) : option Z :=
  if negb (b / 32 =? 0) then None else
  let ext := (b / 16) mod 2 in
  let pid := b mod 16 in
  if pid =? 0 then None else
  match (if ext =? 1
         then match r with n :: r1 => if n =? 0 then None else Some (n, r1, 1) | [] => None end
         else Some (1, r, 0)) with
  | None => None
  | Some (ln, r1, h1) =>
      match (if pid =? 15
             then match r1 with lo :: hi :: r2 => if u16 lo hi =? 0 then None else Some (r2, 2) | _ => None end
             else Some (r1, 0)) with
      | None => None
      | Some (r2, h2) =>
          let raw := 1 + h1 + h2 + ln in
          match takez ln r2 with
          | None => None
          | Some (_, r3) =>
              if Z.odd raw
              then match r3 with 0 :: _ => Some (raw + 1) | _ => None end
              else Some raw
          end
      end
  end.

(* the longest prefix made of well-formed port segments, and the rest *)
Fixpoint split_route (fuel : nat) (bs : bytes) (acc : bytes) : option (bytes * bytes) :=
  match bs with
  | [] => Some (rev_append acc [], [])
  | b :: r =>
      if negb (b / 32 =? 0) then Some (rev_append acc [], bs) else
      match fuel with
      | O => None
      | S f =>
          match port_seg_len b r with
          | None => None
          | Some n =>
              match takez n bs with
              | None => None
              | Some (sg, rest) => split_route f rest (rev_append sg acc)
              end
          end
      end
  end.

Definition route_ok (bs : bytes) : bool :=
  match split_route (List.length bs) bs [] with
  | Some (_, []) => true
  | _ => false
  end.

(* a connection path = route (port segments) then the logical path of the target object *)
Definition split_conn_path (bs : bytes) : option (bytes * bytes) := split_route (List.length bs) bs [].

(* ---------------------------------------------------------------- Unconnected Send *)
Record ucsend := { us_priority : Z; us_ticks : Z; us_embedded : bytes; us_request : mr_request; us_route : bytes }.

Definition parse_ucsend (d : bytes) : res_or_code ucsend :=
  match d with
  | pr :: tk :: l0 :: l1 :: r =>
      let n := u16 l0 l1 in
      match takez n r with
      | None => RcErr 2
      | Some (emb, r1) =>
          match (if Z.odd n then match r1 with
                                 | [] => RcErr 3
                                 | p :: r2 => if p =? 0 then RcOk r2 else RcErr 4
                                 end
                 else RcOk r1) with
          | RcErr c => RcErr c
          | RcOk r2 =>
              match r2 with
              | w :: rs :: r3 =>
                  if negb (rs =? 0) then RcErr 6 else
                  if blen r3 <? 2 * w then RcErr 7 else
                  if 2 * w <? blen r3 then RcErr 8 else
                  if negb (route_ok r3) then RcErr 9 else
                  match parse_mr emb with
                  | RcErr c => RcErr (20 + c)
                  | RcOk rq => RcOk {| us_priority := pr; us_ticks := tk; us_embedded := emb;
                                       us_request := rq; us_route := r3 |}
                  end
              | _ => RcErr 5
              end
          end
      end
  | _ => RcErr 1
  end.

Definition mk_ucsend (pr tk : Z) (emb route : bytes) : bytes :=
  pr :: tk :: le_enc 2 (blen emb) ++ emb ++ (if Z.odd (blen emb) then [0] else [])
  ++ (blen route / 2) :: 0 :: route.
