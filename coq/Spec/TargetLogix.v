(* Spec/TargetLogix.v — the LOGIX half of the reference target (TARGET.md, DESIGN.md Appendix A):
   [logix_handler : handler lstate] = the tag services, the Symbol object (0x6B) and the Template
   object (0x6C) of a Logix controller over the project ADT of Spec/Project.v, falling back to
   T1's [basic_handler] for everything else.  A SPECIFICATION written from the rules of the Logix
   Data Access manual; it is not a mirror of pycomm3.  Definitions only.

   ---- request paths ----
     [91 n "Program:x" (pad)]                      optional scope
     91 n name (pad)  |  20 6B 24/25/26 instance   the tag (by name, case-insensitive, or by symbol instance)
     then any sequence of  28/29/2A index (all dimensions of an array, row-major)  and
     91 n member (pad).  BOOL arrays are DWORD arrays on the wire (index = DWORD index); a BOOL
     member resolves to its host bit; an array that is not indexed is addressed at element 0.
     The reserved logical format 11 (2B, 27, ...) is NOT a segment: status 0x04.
   ---- services ----                                 (status / extended status)
     4C Read Tag              elements UINT                      reply: type (code UINT | A0 02 handle UINT), data;
                                                                 0x06 + the whole elements that fit when the reply would
                                                                 exceed the capacity
     52 Read Tag Fragmented   elements UINT, byte offset UDINT   data from offset; length per [po_frag] (>= 1 element,
                                                                 element-aligned for atomics); 0x06 while more remains
     4D Write Tag             type, elements UINT, data          data length must be elements x size exactly
     53 Write Tag Fragmented  type, elements UINT, offset UDINT, data
     4E Read-Modify-Write     mask size UINT, OR mask, AND mask  new = (old lor OR) land AND; size = width of the tag
     55 Get Instance Attribute List on 20 6B 24/25/26 start     attributes 1 2 3 5 6 7 8 10; pages per [po_page]
     03 Get_Attribute_List on 20 6C 24/25 id                     attributes 1 2 4 5
     4C Template Read on 20 6C 24/25 id   offset UDINT, count UINT   fragments per [po_tmpl]; over-long counts
                                                                 return what exists
   ---- errors, each logged as EvMalformed (service, why) ----
     why 1  bytes after a complete request                         0x15
         2  request data shorter than its fields imply             0x13
         3  element count 0 or beyond the end of the array         0xFF / 0x2105
         4  array index / byte offset beyond the end               0xFF / 0x2105
         5  READ fragment byte offset not a multiple of the element size  0xFF / 0x2105
            (a WRITE fragment that splits an element is accepted: the documents are silent; see EvApp 3)
         6  mask size is not the width of the tag (or the tag is not an integer) 0x03
         7  data type / structure handle does not match the tag    0xFF / 0x2107
         8  path is not a sequence of segments / wrong shape (index on a scalar, member of a non-structure,
            wrong number of indices)                               0x04
         9  no such tag / member / template / program              0x04 (tag, member) 0x05 (template, program)
        10  attribute list malformed or unknown attribute          0x13 / 0x15 / 0x14
     Unknown tag names (why 9) and out-of-range counts / indices (3, 4) are what an honest client
     sends for a request that names something that does not exist; the others mean a malformed
     request.
   ---- EvApp ----
     EvApp 1 [instance; byte offset; service] bytes    a write was executed: [bytes] now stored at [offset]
     EvApp 3 [instance; offset in the transfer; length; element size]   information: that Write Tag Fragmented
                                                       segment was not element-aligned (it was applied) *)
From PV Require Import Base.Bytes Base.PyStr Spec.EncapParser Spec.MRParser Spec.TargetIface Spec.TargetCore
  Spec.Project Spec.Expect.
Open Scope Z_scope.

(* ================================================================ state *)
Record policy := mkPolicy {
  po_page : list Z;        (* symbols per page: the entry at (start instance mod length); 0 / [] = as many as fit *)
  po_frag : list Z;        (* bytes per read fragment: entry at (offset mod length); 0 / [] = as many as fit *)
  po_tmpl : list Z;        (* bytes per template-read fragment, same indexing *)
  po_bool_true : Z;        (* byte returned for a BOOL that is set (Logix: 0xFF) *)
  po_array_bit : bool      (* array members carry dimension count 1 in their member type word *)
}.
Definition default_policy : policy := mkPolicy [] [] [] 255 true.

Record lstate := mkLState { ls_proj : project; ls_mem : mem; ls_pol : policy; ls_basic : basic_state }.
Definition init_lstate : lstate := mkLState empty_project [] default_policy init_basic.

Definition set_proj (p : project) (s : lstate) := mkLState p (ls_mem s) (ls_pol s) (ls_basic s).
Definition set_mem (m : mem) (s : lstate) := mkLState (ls_proj s) m (ls_pol s) (ls_basic s).
Definition set_pol (o : policy) (s : lstate) := mkLState (ls_proj s) (ls_mem s) o (ls_basic s).
Definition set_basic (b : basic_state) (s : lstate) := mkLState (ls_proj s) (ls_mem s) (ls_pol s) b.

Definition pol_entry (l : list Z) (k : Z) : Z :=
  match l with
  | [] => 0
  | _ => nth (Z.to_nat (k mod Z.of_nat (length l))) l 0
  end.

(* ================================================================ results *)
Inductive rres (A : Type) :=
  | ROk (a : A)
  | RErr (status : Z) (ext : list Z) (why : Z).
Arguments ROk {A}. Arguments RErr {A}.

Definition E_SEG {A} : rres A := RErr 4 [] 8.
Definition E_NOTAG {A} : rres A := RErr 4 [] 9.
Definition E_COUNT {A} : rres A := RErr 255 [8453] 3.      (* 0x2105 *)
Definition E_INDEX {A} : rres A := RErr 255 [8453] 4.
Definition E_ALIGN {A} : rres A := RErr 255 [8453] 5.
Definition E_TYPE {A} : rres A := RErr 255 [8455] 7.       (* 0x2107 *)
Definition E_SHORT {A} : rres A := RErr 19 [] 2.
Definition E_LONG {A} : rres A := RErr 21 [] 1.

(* ================================================================ paths *)
Inductive pseg := PSym (n : text) | PLog (ltype : Z) (v : Z).   (* ltype: 0 class 1 instance 2 member 4 attribute *)

Definition parse_pseg (b : Z) (r : bytes) : option (pseg * bytes) :=
  if b =? 145 then
    match r with
    | n :: r1 =>
        if n =? 0 then None else
        match takez n r1 with
        | Some (nm, r2) =>
            if Z.odd n then match r2 with 0 :: r3 => Some (PSym nm, r3) | _ => None end
            else Some (PSym nm, r2)
        | None => None
        end
    | [] => None
    end
  else match parse_logical b r with
       | Some (lt, v, r') => Some (PLog lt v, r')
       | None => None
       end.

Fixpoint parse_psegs (fuel : nat) (bs : bytes) : option (list pseg) :=
  match bs with
  | [] => Some []
  | b :: r =>
      match fuel with
      | O => None
      | S f => match parse_pseg b r with
               | Some (s, r') => match parse_psegs f r' with Some l => Some (s :: l) | None => None end
               | None => None
               end
      end
  end.

(* ================================================================ tag resolution (wire rules) *)
Record wloc := mkWLoc {
  w_inst : Z; w_off : Z; w_ty : base_ty;
  w_dims : list Z;           (* array dimensions not yet indexed *)
  w_avail : Z;               (* elements from this position to the end of the array (1 for a scalar) *)
  w_bit : option Z           (* Some b: a BOOL, bit b of the byte at w_off *)
}.

Definition apply_idx (p : project) (l : wloc) (idx : list Z) : rres wloc :=
  match idx with
  | [] => ROk l
  | _ =>
      match w_bit l, w_dims l with
      | Some _, _ => E_SEG
      | None, [] => E_SEG
      | None, dims =>
          if negb (Nat.eqb (length idx) (length dims)) then E_SEG else
          match flat_index dims idx 0, base_size p (w_ty l) with
          | Some k, Some s => ROk (mkWLoc (w_inst l) (w_off l + k * s) (w_ty l) [] (dims_count dims - k) None)
          | None, _ => E_INDEX
          | _, None => E_SEG
          end
      end
  end.

Definition member_step (p : project) (l : wloc) (n : text) : rres wloc :=
  match w_bit l, w_dims l, w_ty l with
  | None, [], BStruct tid =>
      match find_template (p_templates p) tid with
      | None => E_SEG
      | Some t =>
          match find_member (t_members t) n with
          | None => E_NOTAG
          | Some m =>
              if is_bool_member m
              then ROk (mkWLoc (w_inst l) (w_off l + m_off m) (m_ty m) [] 1 (Some (m_bit m)))
              else ROk (mkWLoc (w_inst l) (w_off l + m_off m) (m_ty m)
                               (if m_arr m =? 0 then [] else [m_arr m]) (member_elems m) None)
          end
      end
  | _, _, _ => E_SEG
  end.

Fixpoint resolve_segs (p : project) (l : wloc) (idx_rev : list Z) (segs : list pseg) : rres wloc :=
  match segs with
  | [] => apply_idx p l (rev idx_rev)
  | PLog 2 k :: r => resolve_segs p l (k :: idx_rev) r
  | PSym n :: r =>
      match apply_idx p l (rev idx_rev) with
      | ROk l1 => match member_step p l1 n with
                  | ROk l2 => resolve_segs p l2 [] r
                  | RErr a b c => RErr a b c
                  end
      | RErr a b c => RErr a b c
      end
  | _ => E_SEG
  end.

Definition tag_wloc (g : tagdef) : rres wloc :=
  match g_ty g with
  | BOpaque _ => RErr 5 [] 9
  | BAtom c => if c =? C_BOOL then ROk (mkWLoc (g_inst g) 0 (g_ty g) [] 1 (Some (g_bitpos g)))
               else ROk (mkWLoc (g_inst g) 0 (g_ty g) (g_dims g) (tag_elems g) None)
  | BStruct _ => ROk (mkWLoc (g_inst g) 0 (g_ty g) (g_dims g) (tag_elems g) None)
  end.

(* what a request path addresses *)
Inductive target :=
  | TgTag (l : wloc)
  | TgSymbols (sc : scope) (start : Z)
  | TgTemplate (t : template)
  | TgOther
  | TgErr (status : Z) (ext : list Z) (why : Z).

Definition of_rres (r : rres wloc) : target :=
  match r with ROk l => TgTag l | RErr a b c => TgErr a b c end.

Definition resolve_in_scope (p : project) (listing : bool) (sc : scope) (segs : list pseg) : target :=
  match segs with
  | PLog 0 107 :: PLog 1 i :: rest =>
      match rest, listing with
      | [], true => TgSymbols sc i      (* service 0x55: class 0x6B + start instance *)
      | _, _ =>
          match find_tag_inst (p_tags p) i with
          | Some g => if scope_eqb (g_scope g) sc
                      then match tag_wloc g with
                           | ROk l => of_rres (resolve_segs p l [] rest)
                           | RErr a b c => TgErr a b c
                           end
                      else TgErr 4 [] 9
          | None => TgErr 4 [] 9
          end
      end
  | PSym n :: rest =>
      match find_tag_name (p_tags p) sc n with
      | Some g => match tag_wloc g with
                  | ROk l => of_rres (resolve_segs p l [] rest)
                  | RErr a b c => TgErr a b c
                  end
      | None => TgErr 4 [] 9
      end
  | _ => TgOther
  end.

(* [listing]: the service is Get Instance Attribute List (0x55), whose instance is where to start *)
Definition resolve_path (p : project) (listing : bool) (path : bytes) : target :=
  match parse_psegs (length path) path with
  | None => TgErr 4 [] 8
  | Some segs =>
      match segs with
      | PLog 0 108 :: PLog 1 i :: rest =>
          match rest with
          | [] => match find_template (p_templates p) i with
                  | Some t => TgTemplate t
                  | None => TgErr 5 [] 9
                  end
          | _ => TgErr 4 [] 8
          end
      | PSym n :: (_ :: _) as rest =>
          if starts_with txt_Program n then
            let pn := skipn 8 n in
            if existsb (name_eqb pn) (program_names p)
            then match resolve_in_scope p listing (ScProg pn) rest with
                 | TgOther => TgErr 4 [] 8
                 | t => t
                 end
            else TgErr 5 [] 9
          else resolve_in_scope p listing ScCtrl segs
      | _ => resolve_in_scope p listing ScCtrl segs
      end
  end.

(* ================================================================ tag services *)
Definition fail (svc : Z) (e : rres unit) : mr_reply * list tevent :=
  match e with
  | RErr st ext why => (mr_error st ext, [EvMalformed svc why])
  | ROk _ => (mr_error 30 [], [])
  end.

Definition loc_esize (p : project) (l : wloc) : option Z :=
  match w_bit l with Some _ => Some 1 | None => base_size p (w_ty l) end.
Definition loc_is_struct (l : wloc) : bool := match w_ty l with BStruct _ => true | _ => false end.

Definition type_bytes (p : project) (l : wloc) : option bytes :=
  match w_ty l with
  | BAtom c => Some (le_enc 2 c)
  | BStruct tid => match find_template (p_templates p) tid with
                   | Some t => Some (160 :: 2 :: le_enc 2 (t_handle t))
                   | None => None
                   end
  | BOpaque _ => None
  end.

(* [len] bytes of the addressed value from byte [from] (a BOOL is one byte: 0 or po_bool_true) *)
Definition loc_bytes (pol : policy) (img : bytes) (l : wloc) (from len : Z) : option bytes :=
  match w_bit l with
  | Some b => match get_bytes img (w_off l) 1 with
              | Some [x] => Some [if Z.testbit x b then po_bool_true pol else 0]
              | _ => None
              end
  | None => get_bytes img (w_off l + from) len
  end.

Definition reply6 (more : bool) (d : bytes) : mr_reply :=
  {| rp_status := if more then 6 else 0; rp_ext := []; rp_data := d |}.

(* Read Tag 0x4C *)
Definition svc_read (p : project) (pol : policy) (img : bytes) (l : wloc) (cap : Z) (data : bytes)
  : mr_reply * list tevent :=
  match data with
  | [e0; e1] =>
      let n := u16 e0 e1 in
      match loc_esize p l, type_bytes p l with
      | Some s, Some tb =>
          if s <? 1 then fail 76 E_SEG else
          if (n <? 1) || (w_avail l <? n) then fail 76 E_COUNT else
          let total := n * s in
          let room := cap - 4 - blen tb in
          let k := if total <=? room then total
                   else let whole := (room / s) * s in
                        if (whole <? 1) && loc_is_struct l then room - room mod 4 else whole in
          if k <? 1 then (mr_error 17 [], [EvReplyTooLarge cap (4 + blen tb + total)]) else
          match loc_bytes pol img l 0 k with
          | Some d => (reply6 (k <? total) (tb ++ d), [])
          | None => (mr_error 30 [], [])
          end
      | _, _ => fail 76 E_SEG
      end
  | _ => if blen data <? 2 then fail 76 E_SHORT else fail 76 E_LONG
  end.

(* Read Tag Fragmented 0x52 *)
Definition svc_read_frag (p : project) (pol : policy) (img : bytes) (l : wloc) (cap : Z) (data : bytes)
  : mr_reply * list tevent :=
  match data with
  | [e0; e1; o0; o1; o2; o3] =>
      let n := u16 e0 e1 in
      let off := u32 o0 o1 o2 o3 in
      match loc_esize p l, type_bytes p l with
      | Some s, Some tb =>
          if s <? 1 then fail 82 E_SEG else
          if (n <? 1) || (w_avail l <? n) then fail 82 E_COUNT else
          let total := n * s in
          if total <=? off then fail 82 E_INDEX else
          let st := loc_is_struct l in
          if negb st && negb (off mod s =? 0) then fail 82 E_ALIGN else
          let remaining := total - off in
          let room := cap - 4 - blen tb in
          let want := pol_entry (po_frag pol) off in
          let lim0 := if want <=? 0 then room else Z.min want room in
          let lim := if st then Z.max 1 lim0 else Z.max s (lim0 - lim0 mod s) in
          if room <? lim then (mr_error 17 [], [EvReplyTooLarge cap (4 + blen tb + lim)]) else
          let k := Z.min remaining lim in
          match loc_bytes pol img l off k with
          | Some d => (reply6 (k <? remaining) (tb ++ d), [])
          | None => (mr_error 30 [], [])
          end
      | _, _ => fail 82 E_SEG
      end
  | _ => if blen data <? 6 then fail 82 E_SHORT else fail 82 E_LONG
  end.

(* the type field of a write: a type code, or A0 02 + structure handle *)
Definition parse_wtype (d : bytes) : option ((Z + Z) * bytes) :=
  match d with
  | 160 :: 2 :: r => match r with h0 :: h1 :: r' => Some (inr (u16 h0 h1), r') | _ => None end
  | c0 :: c1 :: r => Some (inl (u16 c0 c1), r)
  | _ => None
  end.

Definition type_matches (p : project) (l : wloc) (ty : Z + Z) : bool :=
  match w_ty l, ty with
  | BAtom c, inl c' => c =? c'
  | BStruct tid, inr h => match find_template (p_templates p) tid with
                          | Some t => t_handle t =? h
                          | None => false
                          end
  | _, _ => false
  end.

(* store [d] at byte [from] of the addressed value -> new image, the bytes stored, their offset *)
Definition loc_store (img : bytes) (l : wloc) (from : Z) (d : bytes) : option (bytes * bytes * Z) :=
  match w_bit l with
  | Some b =>
      match d, get_bytes img (w_off l) 1 with
      | [x], Some [old] =>
          let nb := set_bit_byte old b (negb (x =? 0)) in
          match put_bytes img (w_off l) [nb] with
          | Some img' => Some (img', [nb], w_off l)
          | None => None
          end
      | _, _ => None
      end
  | None =>
      match put_bytes img (w_off l + from) d with
      | Some img' => Some (img', d, w_off l + from)
      | None => None
      end
  end.

Definition do_store (svc : Z) (m : mem) (img : bytes) (l : wloc) (from : Z) (d : bytes)
  : mem * mr_reply * list tevent :=
  match loc_store img l from d with
  | Some (img', stored, at_) => (mem_set m (w_inst l) img', mr_ok [], [EvApp 1 [w_inst l; at_; svc] stored])
  | None => (m, mr_error 30 [], [])
  end.

Definition nochange (m : mem) (r : mr_reply * list tevent) : mem * mr_reply * list tevent :=
  (m, fst r, snd r).

(* Write Tag 0x4D *)
Definition svc_write (p : project) (m : mem) (img : bytes) (l : wloc) (data : bytes)
  : mem * mr_reply * list tevent :=
  match parse_wtype data with
  | None => nochange m (fail 77 E_SHORT)
  | Some (ty, r) =>
      match r with
      | e0 :: e1 :: d =>
          let n := u16 e0 e1 in
          match loc_esize p l with
          | None => nochange m (fail 77 E_SEG)
          | Some s =>
              if negb (type_matches p l ty) then nochange m (fail 77 E_TYPE)
              else if (n <? 1) || (w_avail l <? n) then nochange m (fail 77 E_COUNT)
              else if blen d <? n * s then nochange m (fail 77 E_SHORT)
              else if n * s <? blen d then nochange m (fail 77 E_LONG)
              else do_store 77 m img l 0 d
          end
      | _ => nochange m (fail 77 E_SHORT)
      end
  end.

(* Write Tag Fragmented 0x53 *)
Definition svc_write_frag (p : project) (m : mem) (img : bytes) (l : wloc) (data : bytes)
  : mem * mr_reply * list tevent :=
  match parse_wtype data with
  | None => nochange m (fail 83 E_SHORT)
  | Some (ty, r) =>
      match r with
      | e0 :: e1 :: o0 :: o1 :: o2 :: o3 :: d =>
          let n := u16 e0 e1 in
          let off := u32 o0 o1 o2 o3 in
          match loc_esize p l with
          | None => nochange m (fail 83 E_SEG)
          | Some s =>
              let st := loc_is_struct l in
              if negb (type_matches p l ty) then nochange m (fail 83 E_TYPE)
              else if (n <? 1) || (w_avail l <? n) then nochange m (fail 83 E_COUNT)
              else if blen d <? 1 then nochange m (fail 83 E_SHORT)
              else if n * s <=? off then nochange m (fail 83 E_INDEX)
              else if n * s <? off + blen d then nochange m (fail 83 E_LONG)
              else
                let '(m', rp, evs) := do_store 83 m img l off d in
                (* the documents do not say that a fragment must hold whole elements: accepted, and
                   recorded as information (not EvMalformed) *)
                if negb st && (negb (off mod s =? 0) || negb (blen d mod s =? 0))
                then (m', rp, evs ++ [EvApp 3 [w_inst l; off; blen d; s] []])
                else (m', rp, evs)
          end
      | _ => nochange m (fail 83 E_SHORT)
      end
  end.

Definition rmw_ok_type (l : wloc) : bool :=
  match w_bit l, w_ty l with
  | None, BAtom c => atom_integer c || atom_bits c
  | _, _ => false
  end.

Fixpoint rmw_bytes (old o a : bytes) : bytes :=
  match old, o, a with
  | x :: old', y :: o', z :: a' => Z.land (Z.lor x y) z :: rmw_bytes old' o' a'
  | _, _, _ => []
  end.

(* Read-Modify-Write 0x4E *)
Definition svc_rmw (p : project) (m : mem) (img : bytes) (l : wloc) (data : bytes)
  : mem * mr_reply * list tevent :=
  match data with
  | s0 :: s1 :: r =>
      let size := u16 s0 s1 in
      match loc_esize p l with
      | None => nochange m (fail 78 E_SEG)
      | Some s =>
          if negb (rmw_ok_type l) || negb (s =? size) then nochange m (fail 78 (RErr 3 [] 6))
          else if blen r <? 2 * size then nochange m (fail 78 E_SHORT)
          else if 2 * size <? blen r then nochange m (fail 78 E_LONG)
          else
            match get_bytes img (w_off l) s with
            | Some old =>
                let o := firstn (Z.to_nat size) r in
                let a := skipn (Z.to_nat size) r in
                do_store 78 m img l 0 (rmw_bytes old o a)
            | None => (m, mr_error 30 [], [])
            end
      end
  | _ => nochange m (fail 78 E_SHORT)
  end.

Definition tag_service (st : lstate) (l : wloc) (cap : Z) (rq : mr_request)
  : lstate * mr_reply * list tevent :=
  let p := ls_proj st in
  let svc := mr_service rq in
  match mem_get (ls_mem st) (w_inst l) with
  | None => (st, mr_error 5 [], [])
  | Some img =>
      if svc =? 76 then let '(rp, ev) := svc_read p (ls_pol st) img l cap (mr_data rq) in (st, rp, ev)
      else if svc =? 82 then let '(rp, ev) := svc_read_frag p (ls_pol st) img l cap (mr_data rq) in (st, rp, ev)
      else if svc =? 77 then let '(m', rp, ev) := svc_write p (ls_mem st) img l (mr_data rq) in (set_mem m' st, rp, ev)
      else if svc =? 83 then let '(m', rp, ev) := svc_write_frag p (ls_mem st) img l (mr_data rq) in (set_mem m' st, rp, ev)
      else if svc =? 78 then let '(m', rp, ev) := svc_rmw p (ls_mem st) img l (mr_data rq) in (set_mem m' st, rp, ev)
      else (st, mr_error 8 [], [])
  end.

(* ================================================================ Symbol object 0x6B: service 0x55 *)
Fixpoint pad3 (k : nat) (l : list Z) : list Z :=
  match k with
  | O => []
  | S k' => match l with [] => 0 :: pad3 k' [] | x :: r => x :: pad3 k' r end
  end.

Definition sym_attr (p : project) (g : tagdef) (a : Z) : option bytes :=
  if a =? 1 then Some (le_enc 2 (blen (g_name g)) ++ g_name g)
  else if a =? 2 then Some (le_enc 2 (sym_type_word g))
  else if a =? 3 then Some (le_enc 4 (g_attr3 g))
  else if a =? 5 then Some (le_enc 4 (g_attr5 g))
  else if a =? 6 then Some (le_enc 4 (g_attr6 g))
  else if a =? 7 then Some (le_enc 2 (match base_size p (g_ty g) with Some s => s | None => 0 end))
  else if a =? 8 then Some (flat_map (le_enc 4) (pad3 3 (g_dims g)))
  else if a =? 10 then Some [g_access g mod 256]
  else None.

Fixpoint sym_entry_attrs (p : project) (g : tagdef) (attrs : list Z) : option bytes :=
  match attrs with
  | [] => Some []
  | a :: r => match sym_attr p g a, sym_entry_attrs p g r with
              | Some x, Some y => Some (x ++ y)
              | _, _ => None
              end
  end.

(* entries while they fit [room] bytes and the page limit; -> (entries newest first, more remain) *)
Fixpoint sym_page (p : project) (attrs : list Z) (gs : list tagdef) (room : Z) (limit : Z) (acc : list bytes)
  : list bytes * bool :=
  match gs with
  | [] => (acc, false)
  | g :: r =>
      match sym_entry_attrs p g attrs with
      | None => (acc, false)
      | Some a =>
          let e := le_enc 4 (g_inst g) ++ a in
          if (limit <? 1) || (room <? blen e) then (acc, true)
          else sym_page p attrs r (room - blen e) (limit - 1) (e :: acc)
      end
  end.

Fixpoint concat_rev (l : list bytes) (acc : bytes) : bytes :=
  match l with
  | [] => acc
  | x :: r => concat_rev r (x ++ acc)
  end.

Definition svc_symbols (st : lstate) (sc : scope) (start : Z) (cap : Z) (data : bytes)
  : mr_reply * list tevent :=
  match data with
  | c0 :: c1 :: r =>
      let n := u16 c0 c1 in
      if blen r <? 2 * n then fail 85 (RErr 19 [] 10)
      else if 2 * n <? blen r then fail 85 (RErr 21 [] 10)
      else
        match rd_offsets (Z.to_nat n) r with
        | None => fail 85 (RErr 19 [] 10)
        | Some attrs =>
            let p := ls_proj st in
            if negb (forallb (fun a => match sym_attr p (mkTag [] 0 ScCtrl (BOpaque 0) [] 0 false 0 0 0 0) a with
                                       | Some _ => true | None => false end) attrs)
            then fail 85 (RErr 20 [] 10)
            else
              let gs := filter (fun g => scope_eqb (g_scope g) sc && (start <=? g_inst g)) (p_tags p) in
              let want := pol_entry (po_page (ls_pol st)) start in
              let limit := if want <=? 0 then 4294967296 else want in
              let '(acc, more) := sym_page p attrs gs (cap - 4) limit [] in
              match acc, gs with
              | [], _ :: _ => (mr_error 17 [], [EvReplyTooLarge cap 0])
              | _, _ => (reply6 more (concat_rev acc []), [])
              end
        end
  | _ => fail 85 (RErr 19 [] 10)
  end.

(* ================================================================ Template object 0x6C *)
Definition tmpl_attr (t : template) (a : Z) : bytes :=
  if a =? 1 then le_enc 2 a ++ [0; 0] ++ le_enc 2 (t_handle t)
  else if a =? 2 then le_enc 2 a ++ [0; 0] ++ le_enc 2 (template_member_count t)
  else if a =? 4 then le_enc 2 a ++ [0; 0] ++ le_enc 4 (template_defsize t)
  else if a =? 5 then le_enc 2 a ++ [0; 0] ++ le_enc 4 (t_size t)
  else le_enc 2 a ++ [20; 0].
Definition tmpl_attr_known (a : Z) : bool := (a =? 1) || (a =? 2) || (a =? 4) || (a =? 5).

Definition svc_tmpl_attrs (t : template) (cap : Z) (data : bytes) : mr_reply * list tevent :=
  match data with
  | c0 :: c1 :: r =>
      let n := u16 c0 c1 in
      if blen r <? 2 * n then fail 3 (RErr 19 [] 10)
      else if 2 * n <? blen r then fail 3 (RErr 21 [] 10)
      else
        match rd_offsets (Z.to_nat n) r with
        | None => fail 3 (RErr 19 [] 10)
        | Some attrs =>
            let d := le_enc 2 n ++ flat_map (tmpl_attr t) attrs in
            if cap - 4 <? blen d then (mr_error 17 [], [EvReplyTooLarge cap (4 + blen d)])
            else ({| rp_status := if forallb tmpl_attr_known attrs then 0 else 10; rp_ext := []; rp_data := d |}, [])
        end
  | _ => fail 3 (RErr 19 [] 10)
  end.

Definition svc_tmpl_read (pol : policy) (t : template) (cap : Z) (data : bytes) : mr_reply * list tevent :=
  match data with
  | [o0; o1; o2; o3; c0; c1] =>
      let off := u32 o0 o1 o2 o3 in
      let cnt := u16 c0 c1 in
      let blob := template_blob (po_array_bit pol) t in
      let total := blen blob in
      if total <? off then fail 76 E_INDEX else
      let want := Z.min cnt (total - off) in
      let room := cap - 4 in
      let pw := pol_entry (po_tmpl pol) off in
      let lim := Z.max 1 (if pw <=? 0 then room else Z.min pw room) in
      if room <? lim then (mr_error 17 [], [EvReplyTooLarge cap (4 + lim)]) else
      let k := Z.min want lim in
      match get_bytes blob off k with
      | Some d => (reply6 (k <? want) d, [])
      | None => (mr_error 30 [], [])
      end
  | _ => if blen data <? 6 then fail 76 E_SHORT else fail 76 E_LONG
  end.

(* ================================================================ the handler *)
Definition logix_request (st : lstate) (tr : transport) (cap : Z) (rq : mr_request)
  : option (lstate * mr_reply * list tevent) :=
  let svc := mr_service rq in
  match resolve_path (ls_proj st) (svc =? 85) (mr_path rq) with
  | TgTag l => Some (tag_service st l cap rq)
  | TgSymbols sc start =>
      if svc =? 85 then let '(rp, ev) := svc_symbols st sc start cap (mr_data rq) in Some (st, rp, ev)
      else Some (st, mr_error 8 [], [])
  | TgTemplate t =>
      if svc =? 3 then let '(rp, ev) := svc_tmpl_attrs t cap (mr_data rq) in Some (st, rp, ev)
      else if svc =? 76 then let '(rp, ev) := svc_tmpl_read (ls_pol st) t cap (mr_data rq) in Some (st, rp, ev)
      else Some (st, mr_error 8 [], [])
  | TgErr a b c =>
      (* a path the Logix objects do not understand may still belong to the basic objects *)
      match h_request basic_handler (ls_basic st) tr cap rq with
      | Some (b', rp, evs) => Some (set_basic b' st, rp, evs)
      | None => Some (st, mr_error a b, [EvMalformed svc c])
      end
  | TgOther =>
      match h_request basic_handler (ls_basic st) tr cap rq with
      | Some (b', rp, evs) => Some (set_basic b' st, rp, evs)
      | None => None
      end
  end.

Definition logix_handler : handler lstate := {| h_request := logix_request |}.
