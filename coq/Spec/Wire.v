(* Spec/Wire.v — C07: the INDEPENDENT reference codec for the CIP / Logix wire layout.

   Written from the CIP data-type specification (Vol 1 appendix C) and the Logix data-access manual,
   arithmetically: no struct format strings, no shifts/masks, no stream object, none of the codec
   functions of Model/Codec.v.  Only the TYPES of the model are shared ([ty], [val], [key], [tenc]),
   so that a theorem can say "the library produces the reference bytes".

     spec_encode : ty -> val -> option bytes      None = not a value of the type
     spec_decode : ty -> bytes -> sres            SOk v rest | SBad | SEnd | STrunc

   The reference REJECTS in the last three cases ([spec_value]); they are kept apart because the
   property's guard is stated with them:
     SEnd    the buffer is exhausted exactly where an item starts (nothing of it was read)
     STrunc  the buffer ends inside an ELEMENT of an unbounded array (after at least one byte of it)
     SBad    anything else the reference refuses (a scalar, string, byte block, string data area or
             structure image that the buffer cuts short, invalid character, unsupported character size)

   Layouts:
     integers   w bytes, byte i = (z mod 2^(8w)) / 256^i mod 256 (two's complement), range-checked
     BOOL       0xFF / 0x00; decoding: non-zero = true
     REAL/LREAL IEEE-754 binary32/binary64 bit patterns (Spec/WireFloat.v, Flocq), little-endian
     bit string bit i of the value = bit (i mod 8) of byte (i / 8)
     strings    count of CHARACTERS (units of the character size) in the documented prefix (UDINT
                LOGIX_STRING, UINT STRING / STRING2, USINT SHORT_STRING; STRINGN: UINT character size
                then UINT count), then each character on the documented number of bytes (1, 2 or 4),
                little-endian; on 2-byte characters a character above U+FFFF is a UTF-16 surrogate
                pair (two units), as the documented encoding "utf-16-le" of STRING2 / STRINGN says
     FixedSizeString  count, characters, zero padding up to the data size; values longer than the
                capacity truncated; a count above the data size reads the whole data area
     arrays     concatenation of the elements (a bit-string array takes / yields the flat bit list)
     Struct     concatenation of the members
     StructTag  [size] zero bytes, each visible member's encoding at its offset, then each BOOL
                member in bit b of the byte at its offset
     DATE_AND_TIME  UDINT time of day then UINT date (6 bytes)
   and [spec_codes]: the CIP elementary type codes 0xC1..0xDE with their widths. *)
From Coq Require Import String.
From PV Require Import Base.Bytes Base.Proto Model.Codec Spec.WireFloat.
Open Scope Z_scope.

Definition blen {A} (l : list A) : Z := Z.of_nat (length l).

(* ------------------------------------------------------------------ integers *)
Definition wpow (w : nat) : Z := 2 ^ (8 * Z.of_nat w).
Definition spec_byte (z : Z) (i : nat) : Z := (z / 256 ^ Z.of_nat i) mod 256.
(* the w bytes of z mod 2^(8w), least significant first *)
Definition spec_le (w : nat) (z : Z) : bytes := map (spec_byte (z mod wpow w)) (seq 0 w).
Definition spec_int_range (sg : bool) (w : nat) (z : Z) : bool :=
  if sg then (- 2 ^ (8 * Z.of_nat w - 1) <=? z) && (z <? 2 ^ (8 * Z.of_nat w - 1))
  else (0 <=? z) && (z <? wpow w).
Definition spec_int (w : nat) (sg : bool) (z : Z) : option bytes :=
  if spec_int_range sg w z then Some (spec_le w z) else None.

Fixpoint spec_le_val_from (i : nat) (bs : bytes) : Z :=
  match bs with
  | [] => 0
  | b :: r => b * 256 ^ Z.of_nat i + spec_le_val_from (S i) r
  end.
Definition spec_le_val (bs : bytes) : Z := spec_le_val_from 0 bs.
Definition spec_int_val (sg : bool) (w : nat) (bs : bytes) : Z :=
  let u := spec_le_val bs in
  if sg && (2 ^ (8 * Z.of_nat w - 1) <=? u) then u - wpow w else u.

(* ------------------------------------------------------------------ decoding outcomes *)
Inductive sres :=
  | SOk (v : val) (rest : bytes)
  | SBad
  | SEnd
  | STrunc.

Definition spec_value (r : sres) : option (val * bytes) :=
  match r with SOk v rest => Some (v, rest) | _ => None end.

Definition sbind (r : sres) (f : val -> bytes -> sres) : sres :=
  match r with SOk v rest => f v rest | x => x end.

(* a fixed-width scalar of n bytes *)
Definition sfield (n : Z) (bs : bytes) (k : bytes -> bytes -> sres) : sres :=
  match bs with
  | [] => SEnd
  | _ => if blen bs <? n then SBad else k (firstn (Z.to_nat n) bs) (skipn (Z.to_nat n) bs)
  end.
(* a block whose size n was announced (or is given by a template): read like a scalar field *)
Definition sblock (n : Z) (bs : bytes) (k : bytes -> bytes -> sres) : sres :=
  match bs with
  | [] => SEnd
  | _ => if blen bs <? n then SBad else k (firstn (Z.to_nat n) bs) (skipn (Z.to_nat n) bs)
  end.

Definition sdec_int (sg : bool) (w : nat) (bs : bytes) : sres :=
  sfield (Z.of_nat w) bs (fun d r => SOk (VInt (spec_int_val sg w d)) r).

(* ------------------------------------------------------------------ BOOL, REAL, LREAL *)
Definition spec_bool_enc (v : val) : option bytes :=
  match v with VBool b => Some [if b then 255 else 0] | _ => None end.
Definition sdec_bool (bs : bytes) : sres :=
  sfield 1 bs (fun d r => SOk (VBool (negb (spec_le_val d =? 0))) r).

Definition spec_real_enc (dbl : bool) (v : val) : option bytes :=
  match v with
  | VFloat b =>
      if sp_f64_ok b then
        if dbl then Some (spec_le 8 b)
        else match spec_real32_of_64 b with Some s => Some (spec_le 4 s) | None => None end
      else None
  | _ => None
  end.
Definition sdec_real (dbl : bool) (bs : bytes) : sres :=
  if dbl then sfield 8 bs (fun d r => SOk (VFloat (sp_canon64 (spec_le_val d))) r)
  else sfield 4 bs (fun d r => SOk (VFloat (spec_real64_of_32 (spec_le_val d))) r).

(* ------------------------------------------------------------------ DATE_AND_TIME *)
Definition spec_datetime_enc (time date : Z) : option bytes :=
  match spec_int 4 false time, spec_int 2 false date with
  | Some a, Some b => Some (a ++ b)
  | _, _ => None
  end.
Definition sdec_datetime (bs : bytes) : sres :=
  sbind (sdec_int false 4 bs) (fun t r1 => sbind (sdec_int false 2 r1) (fun d r2 => SOk (VTuple [t; d]) r2)).

(* ------------------------------------------------------------------ characters and strings *)
(* bytes per character of the encodings the string classes name; UTF-8 is not a fixed-width layout *)
Definition char_width (e : tenc) : option nat :=
  match e with Latin1 => Some 1%nat | Utf16 => Some 2%nat | Utf32 => Some 4%nat | Utf8 => None end.
(* a character that is one unit of cw bytes: a Unicode scalar value below 256^cw *)
Definition is_surr (c : Z) : bool := (0xD800 <=? c) && (c <=? 0xDFFF).
Definition char_ok (cw : nat) (c : Z) : bool :=
  (0 <=? c) && (c <? wpow cw) && (c <=? 0x10FFFF) && negb (is_surr c).
(* the bytes of one character: one unit, or (2-byte characters only) a UTF-16 surrogate pair *)
Definition spec_char (cw : nat) (c : Z) : option bytes :=
  if char_ok cw c then Some (spec_le cw c)
  else if (cw =? 2)%nat && (0x10000 <=? c) && (c <=? 0x10FFFF)
       then let c' := c - 0x10000 in Some (spec_le 2 (0xD800 + c' / 1024) ++ spec_le 2 (0xDC00 + c' mod 1024))
       else None.
Fixpoint spec_chars (cw : nat) (s : text) : option bytes :=
  match s with
  | [] => Some []
  | c :: r => match spec_char cw c, spec_chars cw r with
              | Some a, Some b => Some (a ++ b)
              | _, _ => None
              end
  end.
Fixpoint spec_chars_dec (cw : nat) (fuel : nat) (bs : bytes) : option text :=
  match bs with
  | [] => Some []
  | _ =>
      match fuel with
      | O => None
      | S f =>
          if (length bs <? cw)%nat then None
          else
            let u := spec_le_val (firstn cw bs) in
            let r := skipn cw bs in
            if (cw =? 2)%nat && (0xD800 <=? u) && (u <=? 0xDBFF) then
              if (length r <? 2)%nat then None
              else let u2 := spec_le_val (firstn 2 r) in
                   if (0xDC00 <=? u2) && (u2 <=? 0xDFFF)
                   then option_map (cons (0x10000 + (u - 0xD800) * 1024 + (u2 - 0xDC00))) (spec_chars_dec cw f (skipn 2 r))
                   else None
            else if char_ok cw u then option_map (cons u) (spec_chars_dec cw f r) else None
      end
  end.

Definition spec_str_enc (lw cw : nat) (v : val) : option bytes :=
  match v with
  | VStr s => match spec_chars cw s with
              | Some d => match spec_int lw false (blen d / Z.of_nat cw) with
                          | Some p => Some (p ++ d)
                          | None => None
                          end
              | None => None
              end
  | _ => None
  end.
Definition sdec_chars (cw : nat) (n : Z) (bs : bytes) : sres :=
  sblock (n * Z.of_nat cw) bs (fun d r =>
    match spec_chars_dec cw (length d) d with Some s => SOk (VStr s) r | None => SBad end).
Definition sdec_str (lw cw : nat) (bs : bytes) : sres :=
  sbind (sdec_int false lw bs) (fun n r1 =>
    match n with
    | VInt n => if n =? 0 then SOk (VStr []) r1 else sdec_chars cw n r1
    | _ => SBad
    end).

(* STRINGN: character size (UINT), character count (UINT), characters; the library's one-argument
   encoder uses character size 1 *)
Definition spec_stringn_enc (v : val) : option bytes :=
  match v with
  | VStr s => match spec_chars 1 s with
              | Some d => match spec_int 2 false (blen d) with
                          | Some p => Some (spec_le 2 1 ++ p ++ d)
                          | None => None
                          end
              | None => None
              end
  | _ => None
  end.
Definition sdec_stringn (bs : bytes) : sres :=
  sbind (sdec_int false 2 bs) (fun cs r1 =>
  sbind (sdec_int false 2 r1) (fun cnt r2 =>
    match cs, cnt with
    | VInt cs, VInt cnt =>
        if (cs =? 1) || (cs =? 2) || (cs =? 4) then
          if cnt =? 0 then SOk (VStr []) r2 else sdec_chars (Z.to_nat cs) cnt r2
        else SBad
    | _, _ => SBad
    end)).

(* FixedSizeString(size, len type of lw bytes, capacity) *)
Definition spec_fixedstr_enc (size lw cap : nat) (v : val) : option bytes :=
  match v with
  | VStr s =>
      let s' := firstn cap s in
      match spec_int lw false (blen s'), spec_chars 1 s' with
      | Some p, Some d => if (length s' <=? size)%nat then Some (p ++ d ++ repeat 0 (size - length s')) else None
      | _, _ => None
      end
  | _ => None
  end.
Definition sdec_fixedstr (size lw : nat) (bs : bytes) : sres :=
  sbind (sdec_int false lw bs) (fun n r1 =>
    match n with
    | VInt n => sblock (Z.of_nat size) r1 (fun d r2 => SOk (VStr (firstn (Z.to_nat (Z.min n (Z.of_nat size))) d)) r2)
    | _ => SBad
    end).

(* n_bytes(n): n raw bytes; n = -1: the rest of the buffer (at least one byte) *)
Definition spec_nbytes_enc (n : Z) (v : val) : option bytes :=
  match v with
  | VBytes b => if bytes_ok b && ((n =? -1) || (blen b =? n)) then Some b else None
  | _ => None
  end.
Definition sdec_nbytes (n : Z) (bs : bytes) : sres :=
  if n =? -1 then match bs with [] => SEnd | _ => SOk (VBytes bs) [] end
  else sblock n bs (fun d r => SOk (VBytes d) r).

(* ------------------------------------------------------------------ bit strings *)
Fixpoint bools_of (l : list val) : option (list bool) :=
  match l with
  | [] => Some []
  | VBool b :: r => option_map (cons b) (bools_of r)
  | _ => None
  end.
(* byte k of the image of the bit list l *)
Definition spec_bits_byte (l : list bool) (k : nat) : Z :=
  fold_right Z.add 0 (map (fun j => if nth (8 * k + j) l false then 2 ^ Z.of_nat j else 0) (seq 0 8)).
Definition spec_bits (nbytes : nat) (l : list bool) : bytes := map (spec_bits_byte l) (seq 0 nbytes).
Definition spec_bits_enc (w : nat) (v : val) : option bytes :=
  match v with
  | VList l => match bools_of l with
               | Some bl => if (length bl =? 8 * w)%nat then Some (spec_bits w bl) else None
               | None => None
               end
  | _ => None
  end.
Definition spec_bit_at (bs : bytes) (i : nat) : bool :=
  Z.odd (nth (i / 8) bs 0 / 2 ^ Z.of_nat (i mod 8)).
Definition spec_bits_dec (bs : bytes) : list val :=
  map (fun i => VBool (spec_bit_at bs i)) (seq 0 (8 * length bs)).
Definition sdec_bits (w : nat) (bs : bytes) : sres :=
  sfield (Z.of_nat w) bs (fun d r => SOk (VList (spec_bits_dec d)) r).

(* an array of bit strings takes the flat list of bits: n elements of w bytes ([n = None]: as many
   whole elements as the list holds, which must be all of it) *)
Definition spec_bitarr_enc (n : option nat) (w : nat) (v : val) : option bytes :=
  match v with
  | VList l =>
      match bools_of l with
      | Some bl =>
          match n with
          | Some n => if (n * (8 * w) <=? length bl)%nat then Some (spec_bits (n * w) (firstn (n * (8 * w)) bl)) else None
          | None => if (0 <? w)%nat && (length bl mod (8 * w) =? 0)%nat then Some (spec_bits (length bl / 8) bl) else None
          end
      | None => None
      end
  | _ => None
  end.
Fixpoint concat_vlists (l : list val) : option (list val) :=
  match l with
  | [] => Some []
  | VList a :: r => option_map (app a) (concat_vlists r)
  | _ => None
  end.

(* ------------------------------------------------------------------ arrays *)
Fixpoint spec_enc_list (enc : val -> option bytes) (l : list val) : option bytes :=
  match l with
  | [] => Some []
  | x :: r => match enc x, spec_enc_list enc r with
              | Some a, Some b => Some (a ++ b)
              | _, _ => None
              end
  end.
Definition scons (v : val) (vs : val) (rest : bytes) : sres :=
  match vs with VList l => SOk (VList (v :: l)) rest | _ => SBad end.
Fixpoint sdec_n (dec : bytes -> sres) (n : nat) (bs : bytes) : sres :=
  match n with
  | O => SOk (VList []) bs
  | S n' => sbind (dec bs) (fun v r1 => sbind (sdec_n dec n' r1) (scons v))
  end.
(* an unbounded array: elements until the buffer is exhausted; every element must take at least
   one byte; a buffer that ends inside an element is truncated *)
Fixpoint sdec_all (dec : bytes -> sres) (fuel : nat) (bs : bytes) : sres :=
  match bs with
  | [] => SOk (VList []) []
  | _ =>
      match fuel with
      | O => SBad
      | S f =>
          match dec bs with
          | SOk v r => if (length r <? length bs)%nat then sbind (sdec_all dec f r) (scons v) else SBad
          | SEnd => STrunc
          | x => x
          end
      end
  end.
Definition sflatten (r : sres) : sres :=
  sbind r (fun vs rest => match vs with
                          | VList l => match concat_vlists l with Some f => SOk (VList f) rest | None => SBad end
                          | _ => SBad
                          end).

(* ------------------------------------------------------------------ Struct *)
Fixpoint stext_eqb (x y : text) : bool :=
  match x, y with
  | [], [] => true
  | c :: x', d :: y' => (c =? d) && stext_eqb x' y'
  | _, _ => false
  end.
Definition skey_eqb (a b : key) : bool :=
  match a, b with
  | None, None => true
  | Some x, Some y => stext_eqb x y
  | _, _ => false
  end.
Fixpoint slookup (d : list (key * val)) (k : key) : option val :=
  match d with
  | [] => None
  | (k', v) :: r => if skey_eqb k' k then Some v else slookup r k
  end.
Definition sunnamed (k : key) : bool := match k with None => true | Some [] => true | Some _ => false end.

Fixpoint spec_struct_dict (ms : list (key * (val -> option bytes))) (d : list (key * val)) : option bytes :=
  match ms with
  | [] => Some []
  | (k, enc) :: r =>
      match slookup d k with
      | Some x => match enc x, spec_struct_dict r d with
                  | Some a, Some b => Some (a ++ b)
                  | _, _ => None
                  end
      | None => None
      end
  end.
Fixpoint spec_struct_seq (ms : list (key * (val -> option bytes))) (l : list val) : option bytes :=
  match ms, l with
  | [], [] => Some []
  | (_, enc) :: r, x :: xs => match enc x, spec_struct_seq r xs with
                              | Some a, Some b => Some (a ++ b)
                              | _, _ => None
                              end
  | _, _ => None
  end.
(* the value of a structure: its NAMED members, in order *)
Definition sadd (k : key) (v : val) (d : val) (rest : bytes) : sres :=
  match d with VDict l => SOk (VDict (if sunnamed k then l else (k, v) :: l)) rest | _ => SBad end.
Fixpoint sdec_members (ms : list (key * (bytes -> sres))) (bs : bytes) : sres :=
  match ms with
  | [] => SOk (VDict []) bs
  | (k, dec) :: r => sbind (dec bs) (fun v r1 => sbind (sdec_members r r1) (sadd k v))
  end.

(* ------------------------------------------------------------------ StructTag *)
Definition skey_in (k : key) (priv : list text) : bool :=
  match k with None => false | Some s => existsb (stext_eqb s) priv end.

(* byte j of the image: the member piece covering j (the last one listed, should several), else 0 *)
Definition piece_byte (ps : list (nat * bytes)) (j : nat) : Z :=
  fold_left (fun acc (p : nat * bytes) =>
               let '(off, e) := p in
               if (off <=? j)%nat && (j <? off + length e)%nat then nth (j - off) e 0 else acc) ps 0.
Definition set_bit (v : Z) (b : nat) (x : bool) : Z :=
  let has := Z.odd (v / 2 ^ Z.of_nat b) in
  if x then (if has then v else v + 2 ^ Z.of_nat b) else (if has then v - 2 ^ Z.of_nat b else v).
Definition bits_byte (bvals : list ((nat * nat) * bool)) (j : nat) (base : Z) : Z :=
  fold_left (fun acc (p : (nat * nat) * bool) =>
               let '((off, b), x) := p in if (off =? j)%nat then set_bit acc b x else acc) bvals base.
Definition spec_image (size : nat) (ps : list (nat * bytes)) (bvals : list ((nat * nat) * bool)) : bytes :=
  map (fun j => bits_byte bvals j (piece_byte ps j)) (seq 0 size).

Fixpoint stag_pieces (ms : list ((key * nat) * (val -> option bytes))) (priv : list text)
         (d : list (key * val)) : option (list (nat * bytes)) :=
  match ms with
  | [] => Some []
  | ((k, off), enc) :: r =>
      if skey_in k priv then stag_pieces r priv d
      else match slookup d k with
           | Some x => match enc x, stag_pieces r priv d with
                       | Some e, Some ps => Some ((off, e) :: ps)
                       | _, _ => None
                       end
           | None => None
           end
  end.
Fixpoint stag_bitvals (bits : list (text * (nat * nat))) (d : list (key * val)) : option (list ((nat * nat) * bool)) :=
  match bits with
  | [] => Some []
  | (name, pos) :: r =>
      match slookup d (Some name) with
      | Some (VBool x) => option_map (cons (pos, x)) (stag_bitvals r d)
      | _ => None
      end
  end.

(* every visible member is read at its offset in the image *)
Fixpoint sdec_stag_members (ms : list ((key * nat) * (bytes -> sres))) (priv : list text) (raw : bytes) : sres :=
  match ms with
  | [] => SOk (VDict []) []
  | ((k, off), dec) :: r =>
      if skey_in k priv then sdec_stag_members r priv raw
      else sbind (dec (skipn off raw)) (fun v _ =>
           sbind (sdec_stag_members r priv raw) (fun d _ =>
             match d with VDict l => SOk (VDict ((k, v) :: l)) [] | _ => SBad end))
  end.
Definition sdec_stag (ms : list ((key * nat) * (bytes -> sres))) (bits : list (text * (nat * nat)))
           (priv : list text) (size : nat) (bs : bytes) : sres :=
  match bs with
  | [] => SEnd
  | _ =>
  if (length bs <? size)%nat then SBad
  else
    let raw := firstn size bs in
    sbind (sdec_stag_members ms priv raw) (fun d _ =>
      match d with
      | VDict l =>
          SOk (VDict (l ++ map (fun b : text * (nat * nat) =>
                                  (Some (fst b), VBool (spec_bit_at raw (8 * fst (snd b) + snd (snd b))))) bits))
              (skipn size bs)
      | _ => SBad
      end)
  end.

(* ------------------------------------------------------------------ the reference codec *)
Definition no_value : val -> option bytes := fun _ => None.

Fixpoint spec_encode (t : ty) : val -> option bytes :=
  match t with
  | TBool => spec_bool_enc
  | Codec.TInt sg w => fun v => match v with VInt z => spec_int w sg z | _ => None end
  | TReal dbl => spec_real_enc dbl
  | TDateTime => fun v => match v with VTuple [VInt a; VInt b] => spec_datetime_enc a b | _ => None end
  | TStr lsg lw e => match char_width e with
                     | Some cw => if lsg then no_value else spec_str_enc lw cw
                     | None => no_value
                     end
  | TStringN => spec_stringn_enc
  | TNBytes n => spec_nbytes_enc n
  | TBits w => spec_bits_enc w
  | TArrFixed n e =>
      match e with
      | TBits w => spec_bitarr_enc (Some n) w
      | _ => fun v => match v with
                      | VList l => if (n <=? length l)%nat then spec_enc_list (spec_encode e) (firstn n l) else None
                      | _ => None
                      end
      end
  | TArrAll e =>
      match e with
      | TBits w => spec_bitarr_enc None w
      | _ => fun v => match v with VList l => spec_enc_list (spec_encode e) l | _ => None end
      end
  | TStruct SPlain ms =>
      let ems := map (fun m : key * ty => (fst m, spec_encode (snd m))) ms in
      fun v => match v with
               | VDict d => spec_struct_dict ems d
               | VList l => spec_struct_seq ems l
               | _ => None
               end
  | TFixedStr size lsg lw cap => if lsg then no_value else spec_fixedstr_enc size lw cap
  | TStructTag ms bits priv size =>
      let ems := map (fun m : (key * nat) * ty => (fst m, spec_encode (snd m))) ms in
      fun v => match v with
               | VDict d => match stag_pieces ems priv d, stag_bitvals bits d with
                            | Some ps, Some bv => Some (spec_image size ps bv)
                            | _, _ => None
                            end
               | _ => None
               end
  | _ => no_value
  end.

Definition no_type : bytes -> sres := fun _ => SBad.

Fixpoint spec_decode (t : ty) : bytes -> sres :=
  match t with
  | TBool => sdec_bool
  | Codec.TInt sg w => sdec_int sg w
  | TReal dbl => sdec_real dbl
  | TDateTime => sdec_datetime
  | TStr lsg lw e => match char_width e with
                     | Some cw => if lsg then no_type else sdec_str lw cw
                     | None => no_type
                     end
  | TStringN => sdec_stringn
  | TNBytes n => sdec_nbytes n
  | TBits w => sdec_bits w
  | TArrFixed n e =>
      match e with
      | TBits w => fun bs => sflatten (sdec_n (sdec_bits w) n bs)
      | _ => sdec_n (spec_decode e) n
      end
  | TArrAll e =>
      match e with
      | TBits w => fun bs => sflatten (sdec_all (sdec_bits w) (length bs) bs)
      | _ => fun bs => sdec_all (spec_decode e) (length bs) bs
      end
  | TStruct SPlain ms => sdec_members (map (fun m : key * ty => (fst m, spec_decode (snd m))) ms)
  | TFixedStr size lsg lw _ => if lsg then no_type else sdec_fixedstr size lw
  | TStructTag ms bits priv size =>
      sdec_stag (map (fun m : (key * nat) * ty => (fst m, spec_decode (snd m))) ms) bits priv size
  | _ => no_type
  end.

(* ------------------------------------------------------------------ the types the reference defines *)
Fixpoint sum_widths (l : list (option nat)) : option nat :=
  match l with
  | [] => Some O
  | Some a :: r => match sum_widths r with Some b => Some (a + b)%nat | None => None end
  | None :: _ => None
  end.
(* the number of bytes of every encoding of the type, when that is a constant *)
Fixpoint sfixed (t : ty) : option nat :=
  match t with
  | TBool => Some 1%nat
  | Codec.TInt _ w => Some w
  | TReal dbl => Some (if dbl then 8 else 4)%nat
  | TDateTime => Some 6%nat
  | TBits w => Some w
  | TNBytes n => if 0 <? n then Some (Z.to_nat n) else None
  | TFixedStr size _ lw _ => Some (lw + size)%nat
  | TArrFixed n e => match sfixed e with Some w => Some (n * w)%nat | None => None end
  | TStruct SPlain ms => sum_widths (map (fun m : key * ty => sfixed (snd m)) ms)
  | TStructTag _ _ _ size => Some size
  | _ => None
  end.

Section ListPreds.
  Context {A : Type}.
  Variable f : A -> bool.
  (* f holds of the last element (false on the empty list) *)
  Fixpoint slastb (l : list A) : bool :=
    match l with
    | [] => false
    | a :: r => match r with [] => f a | _ :: _ => slastb r end
    end.
  (* f holds of every element but the last *)
  Fixpoint sinitb (l : list A) : bool :=
    match l with
    | [] => true
    | a :: r => match r with [] => true | _ :: _ => f a && sinitb r end
    end.
End ListPreds.
Arguments slastb {A} f l.
Arguments sinitb {A} f l.
Definition sheadb {A} (f : A -> bool) (l : list A) : bool :=
  match l with [] => false | a :: _ => f a end.

(* the decoder takes the whole remaining buffer: nothing may follow such a type *)
Fixpoint sgreedy (t : ty) : bool :=
  match t with
  | TNBytes n => n <? 0
  | TArrAll _ => true
  | TStruct _ ms => slastb (fun m : key * ty => sgreedy (snd m)) ms
  | _ => false
  end.
(* every value takes at least one byte, and its first item starts the encoding *)
Fixpoint sconsumes (t : ty) : bool :=
  match t with
  | TBool | TReal _ | TStringN | TDateTime => true
  | Codec.TInt _ w | TBits w => (0 <? w)%nat
  | TStr _ lw _ => (0 <? lw)%nat
  | TFixedStr _ _ lw _ => (0 <? lw)%nat
  | TNBytes _ => true
  | TArrFixed n e => (0 <? n)%nat && sconsumes e
  | TStruct _ ms => sheadb (fun m : key * ty => sconsumes (snd m)) ms
  | TStructTag ms _ _ size => (0 <? size)%nat && sheadb (fun m : (key * nat) * ty => sconsumes (snd m)) ms
  | _ => false
  end.

Fixpoint skeys_distinct (ks : list key) : bool :=
  match ks with
  | [] => true
  | k :: r => negb (existsb (skey_eqb k) r) && skeys_distinct r
  end.
(* member extents (offset, width) pairwise disjoint *)
Fixpoint extents_disjoint (l : list (nat * nat)) : bool :=
  match l with
  | [] => true
  | (o, w) :: r => forallb (fun p : nat * nat => (o + w <=? fst p)%nat || (fst p + snd p <=? o)%nat) r
                   && extents_disjoint r
  end.
Definition extent_of (size : nat) (m : (key * nat) * ty) : option (nat * nat) :=
  match sfixed (snd m) with
  | Some w => if (snd (fst m) + w <=? size)%nat then Some (snd (fst m), w) else None
  | None => None
  end.
Fixpoint all_some {A} (l : list (option A)) : option (list A) :=
  match l with
  | [] => Some []
  | Some a :: r => option_map (cons a) (all_some r)
  | None :: _ => None
  end.
(* scalars that decode every byte pattern of their width (what a hidden BOOL host is made of) *)
Definition stotal (t : ty) : bool :=
  match t with
  | TBool | TReal _ => true
  | Codec.TInt _ w | TBits w => (0 <? w)%nat
  | _ => false
  end.
(* template well-formedness: a non-empty image whose first member has a width; members of constant
   width, inside [size], pairwise disjoint; hidden (private) members are plain scalars; bit members
   inside [size], bit numbers 0..7, not private; all names distinct.  Bit members MAY lie in a
   visible member (module-defined templates do that). *)
Definition tmpl_ok (ms : list ((key * nat) * ty)) (bits : list (text * (nat * nat))) (priv : list text) (size : nat) : bool :=
  match all_some (map (extent_of size) ms) with
  | Some exts => extents_disjoint exts
  | None => false
  end
  && forallb (fun b : text * (nat * nat) => (fst (snd b) <? size)%nat && (snd (snd b) <? 8)%nat
                                            && negb (existsb (stext_eqb (fst b)) priv)) bits
  && skeys_distinct (map (fun m : (key * nat) * ty => fst (fst m)) ms ++ map (fun b : text * (nat * nat) => Some (fst b)) bits)
  && ((0 <? size)%nat && sheadb (fun m : (key * nat) * ty => sconsumes (snd m)) ms)
  && forallb (fun m : (key * nat) * ty => negb (skey_in (fst (fst m)) priv) || stotal (snd m)) ms.

Definition is_nbytes (t : ty) : bool := match t with TNBytes _ => true | _ => false end.
Definition is_bitstr (t : ty) : bool := match t with TBits _ => true | _ => false end.

Fixpoint wire_ty (t : ty) : bool :=
  match t with
  | TBool | TReal _ | TStringN | TDateTime => true
  | Codec.TInt _ w | TBits w => (0 <? w)%nat
  | TStr lsg lw e => negb lsg && (0 <? lw)%nat && match char_width e with Some _ => true | None => false end
  | TNBytes n => (n =? -1) || (0 <? n)
  | TArrFixed n e => wire_ty e && negb (sgreedy e)
  | TArrAll e => wire_ty e && negb (sgreedy e) && sconsumes e
  | TStruct SPlain ms =>
      forallb (fun m : key * ty => wire_ty (snd m)) ms
      && sinitb (fun m : key * ty => negb (sgreedy (snd m))) ms
      && skeys_distinct (filter (fun k => negb (sunnamed k)) (map fst ms))
  | TFixedStr size lsg lw cap => negb lsg && (0 <? size)%nat && (0 <? lw)%nat && (cap <=? size)%nat
  | TStructTag ms bits priv size =>
      forallb (fun m : (key * nat) * ty => wire_ty (snd m)) ms && tmpl_ok ms bits priv size
  | _ => false
  end.

(* ------------------------------------------------------------------ CIP elementary type codes *)
(* (code, class name, width in bytes when constant, the reference type when [ty] can express it);
   CIP Vol 1 table C-6.1 *)
Definition code_row := (Z * string * option nat * option ty)%type.
Definition spec_codes : list code_row := [
  (0xC1, "BOOL", Some 1%nat, Some TBool);
  (0xC2, "SINT", Some 1%nat, Some (Codec.TInt true 1));
  (0xC3, "INT", Some 2%nat, Some (Codec.TInt true 2));
  (0xC4, "DINT", Some 4%nat, Some (Codec.TInt true 4));
  (0xC5, "LINT", Some 8%nat, Some (Codec.TInt true 8));
  (0xC6, "USINT", Some 1%nat, Some (Codec.TInt false 1));
  (0xC7, "UINT", Some 2%nat, Some (Codec.TInt false 2));
  (0xC8, "UDINT", Some 4%nat, Some (Codec.TInt false 4));
  (0xC9, "ULINT", Some 8%nat, Some (Codec.TInt false 8));
  (0xCA, "REAL", Some 4%nat, Some (TReal false));
  (0xCB, "LREAL", Some 8%nat, Some (TReal true));
  (0xCC, "STIME", Some 4%nat, Some (Codec.TInt true 4));
  (0xCD, "DATE", Some 2%nat, Some (Codec.TInt false 2));
  (0xCE, "TIME_OF_DAY", Some 4%nat, Some (Codec.TInt false 4));
  (0xCF, "DATE_AND_TIME", Some 6%nat, Some TDateTime);
  (0xD0, "STRING", None, Some (TStr false 2 Latin1));
  (0xD1, "BYTE", Some 1%nat, Some (TBits 1));
  (0xD2, "WORD", Some 2%nat, Some (TBits 2));
  (0xD3, "DWORD", Some 4%nat, Some (TBits 4));
  (0xD4, "LWORD", Some 8%nat, Some (TBits 8));
  (0xD5, "STRING2", None, Some (TStr false 2 Utf16));
  (0xD6, "FTIME", Some 4%nat, Some (Codec.TInt true 4));
  (0xD7, "LTIME", Some 8%nat, Some (Codec.TInt true 8));
  (0xD8, "ITIME", Some 2%nat, Some (Codec.TInt true 2));
  (0xD9, "STRINGN", None, Some TStringN);
  (0xDA, "SHORT_STRING", None, Some (TStr false 1 Latin1));
  (0xDB, "TIME", Some 4%nat, Some (Codec.TInt true 4));
  (0xDC, "EPATH", None, None);
  (0xDD, "ENGUNIT", Some 2%nat, Some (TBits 2));
  (0xDE, "STRINGI", None, None)
]%string.
(* exported without a CIP code: the Logix STRING data layout (4-byte count) *)
Definition spec_uncoded : list code_row := [ (0, "LOGIX_STRING", None, Some (TStr false 4 Latin1)) ]%string.
