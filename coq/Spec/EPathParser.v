(* Spec/EPathParser.v — the independent oracle of C09 / C15.

   (1) A strict parser of padded EPATHs written from the CIP specification (Vol 1, Appendix C-1.4):
         segment byte = | type (bits 7..5) | format (bits 4..0) |
         000  port segment     bit 4 = link-address-size byte follows, bits 3..0 = port identifier
                               (0 reserved, 1..14, 15 = 16-bit extended port number follows),
                               padded with 00 to an even length
         001  logical segment  bits 4..2 logical type (0 class, 1 instance, 2 member,
                               3 connection point, 4 attribute, 5 special, 6 service, 7 reserved),
                               bits 1..0 format (00 8-bit, 01 16-bit, 10 32-bit, 11 RESERVED);
                               in a padded path a 00 pad byte precedes 16- and 32-bit values.
                               (The specification reserves the 32-bit format to instance and
                               connection point; Logix uses it for member ids (0x2A) and property C09
                               quantifies class/instance/attribute/member values to 2^32-1, so the
                               parser reads it for the types 0..4 and leaves that restriction out.)
         100  data segment     0x80 simple data (length in 16-bit words), 0x91 ANSI extended symbol
                               (length in characters, 00 pad after an odd number of characters)
       It rejects odd total length, non-byte values, missing or non-zero pads, reserved formats,
       truncated segments and every segment kind not listed above.
   (2) The intended reading ([denote]) of what a caller asks the library to address.
   (3) The documented tag-string syntax as an AST with [render_tag] and its reference reading.
   (4) The documented connection-path grammar as an AST of spellings with [render_route] and its
       meaning (host, TCP port, hops).
   Nothing here is derived from Model/*.v; only the input vocabulary ([seg]) is shared. *)
From Coq Require Import String.
From PV Require Import Base.Bytes Base.Proto Base.Res Base.PyStr Model.Path.
Open Scope Z_scope.

(* ================================================================ (1) the parser *)
Inductive sseg :=
  | SLogical (ltype : Z) (v : Z)        (* logical type number, value *)
  | SPort (port : Z) (link : list Z)    (* port number, link address bytes *)
  | SSymbol (name : list Z)             (* ANSI extended symbol *)
  | SData (data : list Z).              (* simple data segment *)

Definition take (n : nat) (bs : list Z) : option (list Z * list Z) :=
  if Nat.leb n (List.length bs) then Some (firstn n bs, skipn n bs) else None.

(* [f32] = the format code read as "32-bit value follows": 2 in CIP.  The parser of the
   specification is [parse_padded_epath] = [parse_padded_epath_with 2]; other codes exist only so
   that a FAILED check can be classified (what would a reader see if it took 0b11 for 32-bit?). *)
Definition parse_logical (f32 : Z) (b : Z) (r : list Z) : option (sseg * list Z) :=
  let lt := (b / 4) mod 8 in
  let fmt := b mod 4 in
  if fmt =? 0 then
    if (lt <=? 4) || (lt =? 6) then
      match r with v :: r' => Some (SLogical lt v, r') | [] => None end
    else None
  else if fmt =? 1 then
    if lt <=? 4 then
      match r with 0 :: lo :: hi :: r' => Some (SLogical lt (lo + 256 * hi), r') | _ => None end
    else None
  else if fmt =? f32 then
    if lt <=? 4 then
      match r with
      | 0 :: b0 :: b1 :: b2 :: b3 :: r' => Some (SLogical lt (le_dec [b0; b1; b2; b3]), r')
      | _ => None
      end
    else None
  else None.                                                   (* format 11: reserved *)

Definition parse_port (b : Z) (r : list Z) : option (sseg * list Z) :=
  let ext := (b / 16) mod 2 in
  let pid := b mod 16 in
  if pid =? 0 then None else                                   (* port identifier 0: reserved *)
  match (if ext =? 1
         then match r with
              | n :: r1 => if n =? 0 then None else Some (Z.to_nat n, r1, 1%nat)
              | [] => None
              end
         else Some (1%nat, r, 0%nat)) with
  | None => None
  | Some (ln, r1, h1) =>
      match (if pid =? 15
             then match r1 with
                  | lo :: hi :: r2 => if lo + 256 * hi =? 0 then None else Some (lo + 256 * hi, r2, 2%nat)
                  | _ => None
                  end
             else Some (pid, r1, 0%nat)) with
      | None => None
      | Some (port, r2, h2) =>
          match take ln r2 with
          | None => None
          | Some (link, r3) =>
              if Nat.odd (1 + h1 + h2 + ln)
              then match r3 with 0 :: r4 => Some (SPort port link, r4) | _ => None end
              else Some (SPort port link, r3)
          end
      end
  end.

Definition parse_data (b : Z) (r : list Z) : option (sseg * list Z) :=
  if b =? 128 then                                             (* simple data segment *)
    match r with
    | n :: r1 => match take (2 * Z.to_nat n) r1 with
                 | Some (d, r2) => Some (SData d, r2)
                 | None => None
                 end
    | [] => None
    end
  else if b =? 145 then                                        (* ANSI extended symbol segment *)
    match r with
    | n :: r1 =>
        if n =? 0 then None else
        match take (Z.to_nat n) r1 with
        | Some (nm, r2) =>
            if Z.odd n
            then match r2 with 0 :: r3 => Some (SSymbol nm, r3) | _ => None end
            else Some (SSymbol nm, r2)
        | None => None
        end
    | [] => None
    end
  else None.

Definition parse_seg (f32 : Z) (b : Z) (r : list Z) : option (sseg * list Z) :=
  let st := b / 32 in
  if st =? 0 then parse_port b r
  else if st =? 1 then parse_logical f32 b r
  else if st =? 4 then parse_data b r
  else None.

Fixpoint parse_segs (f32 : Z) (fuel : nat) (bs : list Z) : option (list sseg) :=
  match bs with
  | [] => Some []
  | b :: r =>
      match fuel with
      | O => None
      | S f => match parse_seg f32 b r with
               | Some (s, r') => match parse_segs f32 f r' with
                                 | Some l => Some (s :: l)
                                 | None => None
                                 end
               | None => None
               end
      end
  end.

Definition parse_padded_epath_with (f32 : Z) (bs : list Z) : option (list sseg) :=
  if bytes_ok bs && Nat.even (List.length bs) then parse_segs f32 (List.length bs) bs else None.
Definition FORMAT_32BIT : Z := 2.        (* CIP Vol 1 C-1.4.2: 00 8-bit, 01 16-bit, 10 32-bit, 11 reserved *)
Definition parse_padded_epath : list Z -> option (list sseg) := parse_padded_epath_with FORMAT_32BIT.

(* a path preceded by its size in 16-bit words (and, in Unconnected Send / Forward Close, a pad byte) *)
Definition parse_counted_with (f32 : Z) (pad_length : bool) (bs : list Z) : option (list sseg) :=
  match bs with
  | [] => None
  | w :: r =>
      match (if pad_length then match r with 0 :: b => Some b | _ => None end else Some r) with
      | None => None
      | Some body => if len body =? 2 * w then parse_padded_epath_with f32 body else None
      end
  end.
Definition parse_counted : bool -> list Z -> option (list sseg) := parse_counted_with FORMAT_32BIT.

(* ================================================================ (2) intended reading *)
(* names of the logical types a caller may use, with their CIP logical-type numbers *)
Definition spec_ltypes : list (text * Z) :=
  [(txt "class_id", 0); (txt "instance_id", 1); (txt "member_id", 2);
   (txt "connection_point", 3); (txt "attribute_id", 4)].
(* the port names of the documentation: backplane = port 1; the network port of a communication
   module = port 2 (channel A) / 3 (channel B) *)
Definition spec_port_names : list (text * Z) :=
  [(txt "backplane", 1); (txt "bp", 1); (txt "enet", 2); (txt "dhrio-a", 2); (txt "dhrio-b", 3);
   (txt "dnet", 2); (txt "cnet", 2); (txt "dh485-a", 2); (txt "dh485-b", 3)].
Definition SYMBOL_CLASS : Z := 107.      (* 0x6B, Logix Symbol object *)

(* largest value a logical segment may carry (exclusive) *)
Definition LOGICAL_LIMIT : Z := 4294967296.

Definition spec_octet (o : text) : bool :=
  isdigit o && Nat.leb (List.length o) 3
  && (match o with 48 :: _ :: _ => false | _ => true end)
  && (match digits_val o 0 with Some z => z <=? 255 | None => false end).
Definition dotted_quad (s : text) : bool :=
  match split_chr 46 s with
  | [a; b; c; d] => spec_octet a && spec_octet b && spec_octet c && spec_octet d
  | _ => false
  end.

Definition denote_link (l : plink) : option (list Z) :=
  match l with
  | LinkInt z => if (0 <=? z) && (z <=? 255) then Some [z] else None
  | LinkStr s =>
      if isdigit s then                      (* a decimal slot number (at most 4300 digits, as for int()) *)
        match digits_val s 0 with
        | Some z => if (z <=? 255) && (len s <=? 4300) then Some [z] else None
        | None => None
        end
      else if dotted_quad s then Some s else None
  | LinkBytes b => if bytes_ok b && (1 <=? len b) && (len b <=? 255) then Some b else None
  end.

Definition denote_port (p : Z + list Z) : option Z :=
  match p with
  | inl n => if (1 <=? n) && (n <=? 65535) then Some n else None
  | inr name => assoc_text name spec_port_names
  end.

Definition denote (s : seg) : option sseg :=
  match s with
  | Logical t v =>
      match assoc_text t spec_ltypes with
      | None => None
      | Some lt =>
          match v with
          | LInt z => if (0 <=? z) && (z <? LOGICAL_LIMIT) then Some (SLogical lt z) else None
          | LBytes b =>
              if bytes_ok b && ((len b =? 1) || (len b =? 2) || (len b =? 4))
              then Some (SLogical lt (le_dec b)) else None
          end
      end
  | Port p l =>
      match denote_port p, denote_link l with
      | Some n, Some lk => Some (SPort n lk)
      | _, _ => None
      end
  | DataSym n => if ascii_ok n && (1 <=? len n) && (len n <=? 255) then Some (SSymbol n) else None
  | DataRaw _ => None      (* never built by the library; its length byte counts bytes, not words *)
  | RawBytes _ => None     (* caller-supplied bytes: no intended reading *)
  end.

Fixpoint denote_all (segs : list seg) : option (list sseg) :=
  match segs with
  | [] => Some []
  | s :: r => match denote s, denote_all r with
              | Some a, Some b => Some (a :: b)
              | _, _ => None
              end
  end.

(* ================================================================ (3) tag strings *)
Definition digits := list Z.                     (* a decimal spelling: ASCII digits *)
Definition digits_ok (ds : digits) : bool := isdigit ds.
Definition dval (ds : digits) : Z := match digits_val ds 0 with Some z => z | None => 0 end.

Record level := { lv_name : text; lv_idx : list digits }.
Record tagpath := { tp_program : option text; tp_base : level; tp_members : list level }.

Definition render_idx (idx : list digits) : text :=
  match idx with [] => [] | _ => [91] ++ join [44] idx ++ [93] end.
Definition render_level (l : level) : text := lv_name l ++ render_idx (lv_idx l).
Definition program_prefix : text := txt "Program:".
Definition render_tag (p : tagpath) : text :=
  join [46] ((match tp_program p with Some n => [program_prefix ++ n] | None => [] end)
             ++ map render_level (tp_base p :: tp_members p)).

Definition name_char (c : Z) : bool :=
  (0 <=? c) && (c <? 128) && negb (c =? 46) && negb (c =? 91) && negb (c =? 58).
Definition wf_name (n : text) : bool :=
  forallb name_char n && (1 <=? len n) && (len n <=? 255).
(* a decimal index: at most 4300 digits (Python refuses longer decimal strings) *)
Definition wf_index (limit : Z) (ds : digits) : bool :=
  digits_ok ds && (len ds <=? 4300) && (dval ds <? limit).
Definition wf_level (limit : Z) (l : level) : bool :=
  wf_name (lv_name l) && forallb (wf_index limit) (lv_idx l).
Definition wf_tagpath (limit : Z) (p : tagpath) : bool :=
  (match tp_program p with
   | Some n => wf_name n && (len n <=? 247)
   | None => true
   end)
  && wf_level limit (tp_base p) && forallb (wf_level limit) (tp_members p).

(* reference reading: names and numbers, in order *)
Definition level_reading (l : level) : list sseg :=
  SSymbol (lv_name l) :: map (fun ds => SLogical 2 (dval ds)) (lv_idx l).
Definition tag_reading (p : tagpath) (instance_id : option Z) (use_instance_ids : bool) : list sseg :=
  match tp_program p with
  | Some n => SSymbol (program_prefix ++ n) :: flat_map level_reading (tp_base p :: tp_members p)
  | None =>
      match instance_id with
      | Some i =>
          if use_instance_ids && negb (i =? 0)
          then [SLogical 0 SYMBOL_CLASS; SLogical 1 i]
               ++ map (fun ds => SLogical 2 (dval ds)) (lv_idx (tp_base p))
               ++ flat_map level_reading (tp_members p)
          else flat_map level_reading (tp_base p :: tp_members p)
      | None => flat_map level_reading (tp_base p :: tp_members p)
      end
  end.

(* the instance id a request actually addresses by (symbol-instance addressing: enabled, known,
   non-zero, and the tag is not program-scoped); it must then be a 32-bit number *)
Definition instance_used (p : tagpath) (instance_id : option Z) (use_instance_ids : bool) : option Z :=
  match tp_program p, instance_id with
  | None, Some i => if use_instance_ids && negb (i =? 0) then Some i else None
  | _, _ => None
  end.
Definition wf_instance (limit : Z) (p : tagpath) (instance_id : option Z) (use_instance_ids : bool) : bool :=
  match instance_used p instance_id use_instance_ids with
  | Some i => (0 <=? i) && (i <? limit)
  | None => true
  end.

(* ================================================================ (3b) routes as segment objects *)
(* one hop of a route as the drivers build it: PortSegment(port, link) with a port number or name
   and a link that is a slot number (int or decimal string) or an IPv4 address string *)
Inductive hop_link := HSlot (z : Z) | HSlotStr (ds : digits) | HAddr (o1 o2 o3 o4 : digits).
Record hop := { hop_port : Z + text; hop_to : hop_link }.

Definition addr_text (a b c d : digits) : text := a ++ [46] ++ b ++ [46] ++ c ++ [46] ++ d.
Definition hop_seg (h : hop) : seg :=
  Port (hop_port h)
       (match hop_to h with
        | HSlot z => LinkInt z
        | HSlotStr ds => LinkStr ds
        | HAddr a b c d => LinkStr (addr_text a b c d)
        end).
(* [pmax]: largest port NUMBER admitted (65535 = every CIP port number) *)
Definition wf_hop (pmax : Z) (h : hop) : bool :=
  (match hop_port h with
   | inl n => (1 <=? n) && (n <=? pmax)
   | inr name => match assoc_text name spec_port_names with Some _ => true | None => false end
   end)
  && (match hop_to h with
      | HSlot z => (0 <=? z) && (z <=? 255)
      | HSlotStr ds => digits_ok ds && (len ds <=? 4300) && (dval ds <=? 255)
      | HAddr a b c d => spec_octet a && spec_octet b && spec_octet c && spec_octet d
      end).
Definition hop_reading (h : hop) : sseg :=
  SPort (match hop_port h with
         | inl n => n
         | inr name => match assoc_text name spec_port_names with Some k => k | None => 0 end
         end)
        (match hop_to h with
         | HSlot z => [z]
         | HSlotStr ds => [dval ds]
         | HAddr a b c d => addr_text a b c d          (* the address in ASCII *)
         end).

(* ================================================================ (4) connection paths *)
Inductive port_sp := PName (n : text) | PNum (ds : digits).
Inductive link_sp := LSlot (ds : digits) | LAddr (o1 o2 o3 o4 : digits).
Record hop_sp := { hs_sep1 : Z; hs_port : port_sp; hs_sep2 : Z; hs_link : link_sp }.
Record route_sp := { rs_host : text; rs_tcp : option digits; rs_hops : list hop_sp }.

Definition render_port (p : port_sp) : text := match p with PName n => n | PNum ds => ds end.
Definition render_link (l : link_sp) : text :=
  match l with
  | LSlot ds => ds
  | LAddr a b c d => a ++ [46] ++ b ++ [46] ++ c ++ [46] ++ d
  end.
Definition render_hop (h : hop_sp) : text :=
  [hs_sep1 h] ++ render_port (hs_port h) ++ [hs_sep2 h] ++ render_link (hs_link h).
Definition render_host (r : route_sp) : text :=
  rs_host r ++ match rs_tcp r with Some ds => [58] ++ ds | None => [] end.
Definition render_route (r : route_sp) : text :=
  render_host r ++ flat_map render_hop (rs_hops r).

Definition is_sep (c : Z) : bool := (c =? 47) || (c =? 92) || (c =? 44).
Definition host_char (c : Z) : bool := negb (is_sep c) && negb (c =? 58).

(* [pmax]: largest port NUMBER admitted (65535 = every CIP port number) *)
Definition wf_port_sp (pmax : Z) (p : port_sp) : bool :=
  match p with
  | PName n => match assoc_text n spec_port_names with Some _ => true | None => false end
  | PNum ds => digits_ok ds && (1 <=? dval ds) && (dval ds <=? pmax)
  end.
Definition wf_link_sp (l : link_sp) : bool :=
  match l with
  | LSlot ds => digits_ok ds && (dval ds <=? 255)
  | LAddr a b c d => spec_octet a && spec_octet b && spec_octet c && spec_octet d
  end.
Definition wf_hop_sp (pmax : Z) (h : hop_sp) : bool :=
  is_sep (hs_sep1 h) && is_sep (hs_sep2 h) && wf_port_sp pmax (hs_port h) && wf_link_sp (hs_link h).
Definition wf_tcp (ds : digits) : bool := digits_ok ds && (1 <=? dval ds) && (dval ds <=? 65534).
Definition wf_route_sp (pmax : Z) (r : route_sp) : bool :=
  forallb host_char (rs_host r)
  && (match rs_tcp r with Some ds => wf_tcp ds | None => true end)
  && forallb (wf_hop_sp pmax) (rs_hops r).

(* meaning *)
Definition port_meaning (p : port_sp) : Z :=
  match p with
  | PName n => match assoc_text n spec_port_names with Some k => k | None => 0 end
  | PNum ds => dval ds
  end.
Definition link_meaning (l : link_sp) : list Z :=
  match l with
  | LSlot ds => [dval ds]
  | LAddr _ _ _ _ => render_link l          (* the address in ASCII *)
  end.
Definition hop_meaning (h : hop_sp) : sseg := SPort (port_meaning (hs_port h)) (link_meaning (hs_link h)).
Definition route_meaning (r : route_sp) : text * option Z * list sseg :=
  (rs_host r, option_map dval (rs_tcp r), map hop_meaning (rs_hops r)).
