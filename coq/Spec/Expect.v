(* Spec/Expect.v — the reference interpretation of a tag request on the project ADT (no packets),
   and the abstract view an upload must show (oracle of C05).  Definitions only.

     parse_request : text -> option request_ast        tag, tag.member, tag[i,j].m[k].bit,
                                                        Program:P.tag, trailing {n}
     ref_read  : project -> mem -> request_ast -> option rvalue
     ref_write : project -> mem -> request_ast -> rvalue -> option mem
     ref_type  : project -> request_ast -> option (text * Z)   element type name, element count
     abstract_view : project -> view

   Reading rules (the Logix addressing rules, stated on the ADT):
   * an array that is not indexed is addressed at its first element; all dimensions are indexed
     together, row-major; [{n}] asks for n consecutive elements from the addressed one and must
     stay inside the array; an explicit [{n}] always yields a list (also for n = 1);
   * [.b] on an integer element (SINT..ULINT) is bit b of its two's-complement image;
   * a BOOL array is a DWORD array: [arr[i]] is bit (i mod 32) of word (i / 32); [arr[i]{n}] the
     n bits from i; the un-indexed array is addressed at bit 0;
   * a BOOL member is bit [m_bit] of the byte at [m_off]; a BOOL tag bit [g_bitpos] of its byte;
   * a structure is the ordered list of its VISIBLE members; a structure whose visible members
     are exactly LEN (DINT) and DATA (SINT array) is a string: the first LEN characters of DATA
     (no reference value when LEN is outside 0..length DATA);
   * REAL / LREAL are their IEEE bit patterns; signed integers are sign-extended.
   Writing: the addressed bytes become the encoding of the value and nothing else changes; a
   string longer than DATA is truncated, the rest of DATA is zero; a structure value names every
   visible member in order, bytes not covered by a visible member become zero; a value list longer
   than the requested count is truncated to it. *)
From Coq Require Import String.
From PV Require Import Base.Bytes Base.Proto Base.PyStr Spec.Project.
Open Scope Z_scope.

Inductive rvalue :=
  | RInt (z : Z)
  | RBool (b : bool)
  | RReal (bits : Z)                       (* binary32 pattern *)
  | RLReal (bits : Z)                      (* binary64 pattern *)
  | RStr (cs : text)
  | RStruct (ms : list (text * rvalue))
  | RList (vs : list rvalue).

Record rseg := mkSeg { s_name : text; s_idx : list Z }.
Record request_ast := mkReq {
  r_prog : option text;                    (* Program:<name> scope *)
  r_segs : list rseg;                      (* tag, then members *)
  r_bit : option Z;                        (* trailing .<digits> *)
  r_count : option Z                       (* trailing {n} *)
}.

Definition zs (x : string) : text := zs_of_string x.
Arguments zs x%string.

(* ------------------------------------------------------------------ request strings *)
Definition LBRACK := 91. Definition RBRACK := 93. Definition LBRACE := 123. Definition RBRACE := 125.
Definition DOT := 46. Definition COMMA := 44.

Fixpoint all_some {A} (l : list (option A)) : option (list A) :=
  match l with
  | [] => Some []
  | Some x :: r => match all_some r with Some r' => Some (x :: r') | None => None end
  | None :: _ => None
  end.

Definition nonempty {A} (l : list A) : bool := match l with [] => false | _ => true end.
Definition parse_nat (s : text) : option Z := if isdigit s then digits_val s 0 else None.

Definition split_last {A} (l : list A) : option (list A * A) :=
  match rev l with [] => None | x :: r => Some (rev r, x) end.

(* "name" or "name[i,j,k]" *)
Definition parse_seg (s : text) : option rseg :=
  match split_chr LBRACK s with
  | [n] => if nonempty n && negb (contains_chr RBRACK n) then Some (mkSeg n []) else None
  | [n; rest] =>
      match split_last rest with
      | Some (inner, c) =>
          if (c =? RBRACK) && nonempty n && negb (contains_chr RBRACK inner) then
            match all_some (map parse_nat (split_chr COMMA inner)) with
            | Some idx => if Nat.leb (length idx) 3 then Some (mkSeg n idx) else None
            | None => None
            end
          else None
      | None => None
      end
  | _ => None
  end.

(* body{n} -> (body, Some n) *)
Definition split_count (s : text) : option (text * option Z) :=
  match split_last s with
  | Some (s', c) =>
      if c =? RBRACE then
        match split_chr LBRACE s' with
        | [body; n] => match parse_nat n with Some z => Some (body, Some z) | None => None end
        | _ => None
        end
      else if contains_chr LBRACE s || contains_chr RBRACE s then None else Some (s, None)
  | None => None
  end.

Definition parse_request (s : text) : option request_ast :=
  match split_count s with
  | None => None
  | Some (body, cnt) =>
      let parts := split_chr DOT body in
      let '(prog, parts1) :=
        match parts with
        | p0 :: r => if starts_with txt_Program p0 then (Some (skipn 8 p0), r) else (None, parts)
        | [] => (None, parts)
        end in
      if (match prog with Some [] => true | _ => false end) then None else
      let '(bit, parts2) :=
        match split_last parts1 with
        | Some (init, l) =>
            if nonempty init && isdigit l then (digits_val l 0, init) else (None, parts1)
        | None => (None, parts1)
        end in
      match all_some (map parse_seg parts2) with
      | Some (sg :: segs) => Some (mkReq prog (sg :: segs) bit cnt)
      | _ => None
      end
  end.

(* ------------------------------------------------------------------ byte access *)
Definition blen (b : bytes) : Z := Z.of_nat (length b).
Definition get_bytes (img : bytes) (off n : Z) : option bytes :=
  if (0 <=? off) && (0 <=? n) && (off + n <=? blen img)
  then Some (firstn (Z.to_nat n) (skipn (Z.to_nat off) img)) else None.
Definition put_bytes (img : bytes) (off : Z) (d : bytes) : option bytes :=
  if (0 <=? off) && (off + blen d <=? blen img)
  then Some (firstn (Z.to_nat off) img ++ d ++ skipn (Z.to_nat off + length d) img) else None.

Definition bools_of_byte (b : Z) : list bool := map (fun i => Z.testbit b (Z.of_nat i)) (seq 0 8).
Definition bools_of_bytes (bs : bytes) : list bool := flat_map bools_of_byte bs.
Fixpoint byte_of_bools (k : nat) (l : list bool) (w : Z) (acc : Z) : Z * list bool :=
  match k with
  | O => (acc, l)
  | S k' => match l with
            | [] => (acc, [])
            | b :: r => byte_of_bools k' r (2 * w) (if b then acc + w else acc)
            end
  end.
Fixpoint bytes_of_bools (fuel : nat) (l : list bool) : bytes :=
  match fuel with
  | O => []
  | S f => match l with
           | [] => []
           | _ => let '(b, r) := byte_of_bools 8 l 1 0 in b :: bytes_of_bools f r
           end
  end.

Fixpoint chunks (n : nat) (size : nat) (bs : bytes) : list bytes :=
  match n with
  | O => []
  | S n' => firstn size bs :: chunks n' size (skipn size bs)
  end.

(* ------------------------------------------------------------------ strings *)
Definition txt_LEN : text := [76;69;78].
Definition txt_DATA : text := [68;65;84;65].
Definition visible_members (t : template) : list member := filter (fun m => negb (m_hidden m)) (t_members t).

(* Some (LEN member, DATA member) when the structure is a string *)
Definition string_shape (t : template) : option (member * member) :=
  match visible_members t with
  | [l; d] =>
      if text_eqb (m_name l) txt_LEN && text_eqb (m_name d) txt_DATA
         && (match m_ty l with BAtom c => c =? C_DINT | _ => false end) && (m_arr l =? 0)
         && (match m_ty d with BAtom c => c =? C_SINT | _ => false end) && (0 <? m_arr d)
      then Some (l, d) else None
  | _ => None
  end.

(* ------------------------------------------------------------------ decoding *)
Definition rbools (bs : bytes) : rvalue := RList (map RBool (bools_of_bytes bs)).

Definition decode_atom (c : Z) (bs : bytes) : option rvalue :=
  match atom_size c with
  | None => None
  | Some s =>
      if negb (blen bs =? s) then None else
      let w := Z.to_nat s in
      if c =? C_BOOL then Some (RBool (negb (le_dec bs =? 0)))
      else if atom_signed c then Some (RInt (to_signed w (le_dec bs)))
      else if atom_unsigned c then Some (RInt (le_dec bs))
      else if c =? C_REAL then Some (RReal (le_dec bs))
      else if c =? C_LREAL then Some (RLReal (le_dec bs))
      else if atom_bits c then Some (rbools bs)
      else None
  end.

Definition is_bits_ty (ty : base_ty) : bool := match ty with BAtom c => atom_bits c | _ => false end.

(* n elements of size s; bit-string elements are flattened into one list of BOOLs *)
Definition decode_array_with (dv : base_ty -> bytes -> option rvalue) (ty : base_ty) (s n : Z) (d : bytes)
  : option rvalue :=
  if is_bits_ty ty then Some (rbools d)
  else match all_some (map (dv ty) (chunks (Z.to_nat n) (Z.to_nat s) d)) with
       | Some vs => Some (RList vs)
       | None => None
       end.

Definition decode_member_with (dv : base_ty -> bytes -> option rvalue) (p : project) (m : member) (bs : bytes)
  : option rvalue :=
  if is_bool_member m then
    match get_bytes bs (m_off m) 1 with
    | Some [b] => Some (RBool (Z.testbit b (m_bit m)))
    | _ => None
    end
  else
    match base_size p (m_ty m) with
    | None => None
    | Some s =>
        match get_bytes bs (m_off m) (s * member_elems m) with
        | None => None
        | Some d => if m_arr m =? 0 then dv (m_ty m) d else decode_array_with dv (m_ty m) s (m_arr m) d
        end
    end.

Definition decode_string (l d : member) (bs : bytes) : option rvalue :=
  match get_bytes bs (m_off l) 4, get_bytes bs (m_off d) (m_arr d) with
  | Some lb, Some db =>
      let n := to_signed 4 (le_dec lb) in
      if (0 <=? n) && (n <=? m_arr d) then Some (RStr (firstn (Z.to_nat n) db)) else None
  | _, _ => None
  end.

Fixpoint decode_val (fuel : nat) (p : project) (ty : base_ty) (bs : bytes) {struct fuel} : option rvalue :=
  match fuel with
  | O => None
  | S f =>
      match ty with
      | BAtom c => decode_atom c bs
      | BOpaque _ => None
      | BStruct tid =>
          match find_template (p_templates p) tid with
          | None => None
          | Some t =>
              if negb (blen bs =? t_size t) then None else
              match string_shape t with
              | Some (l, d) => decode_string l d bs
              | None =>
                  match all_some (map (fun m => match decode_member_with (decode_val f p) p m bs with
                                                | Some v => Some (m_name m, v)
                                                | None => None
                                                end) (visible_members t)) with
                  | Some ms => Some (RStruct ms)
                  | None => None
                  end
              end
          end
      end
  end.

Definition depth_fuel (p : project) : nat := S (S (length (p_templates p))).

(* ------------------------------------------------------------------ encoding *)
Definition as_bools (v : rvalue) : option (list bool) :=
  match v with
  | RList vs => all_some (map (fun x => match x with RBool b => Some b | _ => None end) vs)
  | _ => None
  end.

Definition encode_atom (c : Z) (v : rvalue) : option bytes :=
  match atom_size c with
  | None => None
  | Some s =>
      let w := Z.to_nat s in
      match v with
      | RInt z =>
          if atom_signed c then (if in_srange w z then Some (le_enc w (of_signed w z)) else None)
          else if atom_unsigned c then (if in_urange w z then Some (le_enc w z) else None)
          else None
      | RBool b => if c =? C_BOOL then Some [if b then 1 else 0] else None
      | RReal z => if (c =? C_REAL) && in_urange 4 z then Some (le_enc 4 z) else None
      | RLReal z => if (c =? C_LREAL) && in_urange 8 z then Some (le_enc 8 z) else None
      | RList _ =>
          if atom_bits c then
            match as_bools v with
            | Some bl => if Z.of_nat (length bl) =? 8 * s then Some (bytes_of_bools (length bl) bl) else None
            | None => None
            end
          else None
      | _ => None
      end
  end.

Definition encode_array_with (ev : base_ty -> rvalue -> option bytes) (ty : base_ty) (s n : Z) (v : rvalue)
  : option bytes :=
  if is_bits_ty ty then
    match as_bools v with
    | Some bl => if Z.of_nat (length bl) =? 8 * s * n then Some (bytes_of_bools (length bl) bl) else None
    | None => None
    end
  else
    match v with
    | RList vs =>
        if Z.of_nat (length vs) =? n then
          match all_some (map (ev ty) vs) with
          | Some ds => if forallb (fun d => blen d =? s) ds then Some (concat ds) else None
          | None => None
          end
        else None
    | _ => None
    end.

Definition set_bit_byte (b : Z) (k : Z) (x : bool) : Z := if x then Z.setbit b k else Z.clearbit b k.

Definition encode_member_with (ev : base_ty -> rvalue -> option bytes) (p : project) (m : member) (v : rvalue)
  (img : bytes) : option bytes :=
  if is_bool_member m then
    match v, get_bytes img (m_off m) 1 with
    | RBool x, Some [b] => put_bytes img (m_off m) [set_bit_byte b (m_bit m) x]
    | _, _ => None
    end
  else
    match base_size p (m_ty m) with
    | None => None
    | Some s =>
        match (if m_arr m =? 0 then ev (m_ty m) v else encode_array_with ev (m_ty m) s (m_arr m) v) with
        | Some d => if blen d =? s * member_elems m then put_bytes img (m_off m) d else None
        | None => None
        end
    end.

Fixpoint encode_members_with (ev : base_ty -> rvalue -> option bytes) (p : project) (ms : list member)
  (fs : list (text * rvalue)) (img : bytes) : option bytes :=
  match ms, fs with
  | [], [] => Some img
  | m :: ms', (n, v) :: fs' =>
      if text_eqb (m_name m) n then
        match encode_member_with ev p m v img with
        | Some img' => encode_members_with ev p ms' fs' img'
        | None => None
        end
      else None
  | _, _ => None
  end.

Definition encode_string (t : template) (l d : member) (cs : text) : option bytes :=
  if bytes_ok cs then
    let n := Z.min (blen cs) (m_arr d) in
    let chars := firstn (Z.to_nat n) cs in
    match put_bytes (zeros (Z.to_nat (t_size t))) (m_off l) (le_enc 4 n) with
    | Some img => put_bytes img (m_off d) (chars ++ zeros (Z.to_nat (m_arr d - n)))
    | None => None
    end
  else None.

Fixpoint encode_val (fuel : nat) (p : project) (ty : base_ty) (v : rvalue) {struct fuel} : option bytes :=
  match fuel with
  | O => None
  | S f =>
      match ty with
      | BAtom c => encode_atom c v
      | BOpaque _ => None
      | BStruct tid =>
          match find_template (p_templates p) tid with
          | None => None
          | Some t =>
              match string_shape t, v with
              | Some (l, d), RStr cs => encode_string t l d cs
              | None, RStruct fs =>
                  encode_members_with (encode_val f p) p (visible_members t) fs (zeros (Z.to_nat (t_size t)))
              | _, _ => None
              end
          end
      end
  end.

(* ------------------------------------------------------------------ addresses *)
Inductive place :=
  | PlData (inst off : Z) (ty : base_ty) (dims : list Z) (avail : Z)
      (* [avail] elements of [ty] from byte [off]; [dims] non-empty = an array not yet indexed *)
  | PlBit (inst off bit : Z)                       (* BOOL member or BOOL tag *)
  | PlBools (inst off : Z) (nbits start : Z).      (* BOOL array of [nbits] bits at [off], position [start] *)

Fixpoint flat_index (dims idx : list Z) (acc : Z) : option Z :=
  match dims, idx with
  | [], [] => Some acc
  | d :: dr, i :: ir => if (0 <=? i) && (i <? d) then flat_index dr ir (acc * d + i) else None
  | _, _ => None
  end.

Definition is_dword (ty : base_ty) : bool := match ty with BAtom c => c =? C_DWORD | _ => false end.

(* index an array place; [] keeps it pending at its first element *)
Definition index_place (p : project) (pl : place) (idx : list Z) : option place :=
  match pl with
  | PlData inst off ty dims avail =>
      if is_dword ty then
        match dims, idx with
        | [], [] => Some (PlBools inst off 32 0)
        | [n], [] => Some (PlBools inst off (32 * n) 0)
        | [], [i] => if (0 <=? i) && (i <? 32) then Some (PlBools inst off 32 i) else None
        | [n], [i] => if (0 <=? i) && (i <? 32 * n) then Some (PlBools inst off (32 * n) i) else None
        | _, _ => None
        end
      else
      match idx with
      | [] => Some pl
      | _ =>
          match flat_index dims idx 0, base_size p ty with
          | Some k, Some s => Some (PlData inst (off + k * s) ty [] (dims_count dims - k))
          | _, _ => None
          end
      end
  | _ => match idx with [] => Some pl | _ => None end
  end.

Definition member_place (p : project) (pl : place) (n : text) : option place :=
  match pl with
  | PlData inst off (BStruct tid) [] _ =>
      match find_template (p_templates p) tid with
      | None => None
      | Some t =>
          match find_member (t_members t) n with
          | None => None
          | Some m =>
              if is_bool_member m then Some (PlBit inst (off + m_off m) (m_bit m))
              else Some (PlData inst (off + m_off m) (m_ty m)
                                (if m_arr m =? 0 then [] else [m_arr m]) (member_elems m))
          end
      end
  | _ => None
  end.

Fixpoint walk_members (p : project) (pl : place) (segs : list rseg) : option place :=
  match segs with
  | [] => Some pl
  | sg :: r =>
      match member_place p pl (s_name sg) with
      | None => None
      | Some pl1 => match index_place p pl1 (s_idx sg) with
                    | Some pl2 => walk_members p pl2 r
                    | None => None
                    end
      end
  end.

Definition tag_place (g : tagdef) : option place :=
  match g_ty g with
  | BOpaque _ => None
  | BAtom c => if c =? C_BOOL then Some (PlBit (g_inst g) 0 (g_bitpos g))
               else Some (PlData (g_inst g) 0 (g_ty g) (g_dims g) (tag_elems g))
  | BStruct _ => Some (PlData (g_inst g) 0 (g_ty g) (g_dims g) (tag_elems g))
  end.

Definition req_scope (r : request_ast) : scope :=
  match r_prog r with Some n => ScProg n | None => ScCtrl end.

Definition resolve (p : project) (r : request_ast) : option place :=
  match r_segs r with
  | [] => None
  | sg :: rest =>
      match find_tag_name (p_tags p) (req_scope r) (s_name sg) with
      | None => None
      | Some g =>
          match tag_place g with
          | None => None
          | Some pl0 => match index_place p pl0 (s_idx sg) with
                        | Some pl1 => walk_members p pl1 rest
                        | None => None
                        end
          end
      end
  end.

(* ------------------------------------------------------------------ ref_read *)
Definition int_ty (ty : base_ty) : bool := match ty with BAtom c => atom_integer c | _ => false end.

Definition read_place (p : project) (img : bytes) (pl : place) (bit cnt : option Z) : option rvalue :=
  match pl with
  | PlData _ off ty _ avail =>
      match base_size p ty with
      | None => None
      | Some s =>
          match bit, cnt with
          | Some b, None =>
              if int_ty ty && (0 <=? b) && (b <? 8 * s) then
                match get_bytes img off s with
                | Some d => Some (RBool (Z.testbit (le_dec d) b))
                | None => None
                end
              else None
          | None, None =>
              match get_bytes img off s with
              | Some d => decode_val (depth_fuel p) p ty d
              | None => None
              end
          | None, Some n =>
              if (1 <=? n) && (n <=? avail) then
                match get_bytes img off (s * n) with
                | Some d => decode_array_with (decode_val (depth_fuel p) p) ty s n d
                | None => None
                end
              else None
          | Some _, Some _ => None
          end
      end
  | PlBit _ off b =>
      match bit, cnt, get_bytes img off 1 with
      | None, None, Some [x] => Some (RBool (Z.testbit x b))
      | _, _, _ => None
      end
  | PlBools _ off nbits start =>
      match bit with
      | Some _ => None
      | None =>
          let n := match cnt with Some n => n | None => 1 end in
          if (1 <=? n) && (start + n <=? nbits) then
            let b0 := start / 8 in
            let b1 := (start + n - 1) / 8 in
            match get_bytes img (off + b0) (b1 - b0 + 1) with
            | Some d =>
                let bl := firstn (Z.to_nat n) (skipn (Z.to_nat (start - 8 * b0)) (bools_of_bytes d)) in
                match cnt with
                | Some _ => Some (RList (map RBool bl))
                | None => match bl with [x] => Some (RBool x) | _ => None end
                end
            | None => None
            end
          else None
      end
  end.

Definition place_inst (pl : place) : Z :=
  match pl with PlData i _ _ _ _ => i | PlBit i _ _ => i | PlBools i _ _ _ => i end.

Definition ref_read (p : project) (m : mem) (r : request_ast) : option rvalue :=
  match resolve p r with
  | None => None
  | Some pl =>
      match mem_get m (place_inst pl) with
      | None => None
      | Some img => read_place p img pl (r_bit r) (r_count r)
      end
  end.

(* ------------------------------------------------------------------ ref_write *)
Definition take_values (n : Z) (v : rvalue) : option rvalue :=
  match v with
  | RList vs => if n <=? Z.of_nat (length vs) then Some (RList (firstn (Z.to_nat n) vs)) else None
  | _ => None
  end.

Definition write_place (p : project) (img : bytes) (pl : place) (bit cnt : option Z) (v : rvalue) : option bytes :=
  match pl with
  | PlData _ off ty _ avail =>
      match base_size p ty with
      | None => None
      | Some s =>
          match bit, cnt with
          | Some b, None =>
              match v, get_bytes img off s with
              | RBool x, Some d =>
                  if int_ty ty && (0 <=? b) && (b <? 8 * s)
                  then put_bytes img off (le_enc (Z.to_nat s) (set_bit_byte (le_dec d) b x))
                  else None
              | _, _ => None
              end
          | None, None =>
              match encode_val (depth_fuel p) p ty v with
              | Some d => if blen d =? s then put_bytes img off d else None
              | None => None
              end
          | None, Some n =>
              if (1 <=? n) && (n <=? avail) then
                let v' := if is_bits_ty ty
                          then match v with
                               | RList vs => if 8 * s * n <=? Z.of_nat (length vs)
                                             then Some (RList (firstn (Z.to_nat (8 * s * n)) vs)) else None
                               | _ => None
                               end
                          else take_values n v in
                match v' with
                | Some v1 =>
                    match encode_array_with (encode_val (depth_fuel p) p) ty s n v1 with
                    | Some d => if blen d =? s * n then put_bytes img off d else None
                    | None => None
                    end
                | None => None
                end
              else None
          | Some _, Some _ => None
          end
      end
  | PlBit _ off b =>
      match bit, cnt, v, get_bytes img off 1 with
      | None, None, RBool x, Some [y] => put_bytes img off [set_bit_byte y b x]
      | _, _, _, _ => None
      end
  | PlBools _ off nbits start =>
      match bit with
      | Some _ => None
      | None =>
          let n := match cnt with Some n => n | None => 1 end in
          let vals := match cnt, v with
                      | None, RBool x => Some [x]
                      | Some _, _ => match take_values n v with Some v1 => as_bools v1 | None => None end
                      | _, _ => None
                      end in
          match vals with
          | None => None
          | Some bl =>
              if (1 <=? n) && (start + n <=? nbits) then
                let b0 := start / 8 in
                let b1 := (start + n - 1) / 8 in
                match get_bytes img (off + b0) (b1 - b0 + 1) with
                | Some d =>
                    let old := bools_of_bytes d in
                    let k := Z.to_nat (start - 8 * b0) in
                    let new := firstn k old ++ bl ++ skipn (k + length bl) old in
                    put_bytes img (off + b0) (bytes_of_bools (length new) new)
                | None => None
                end
              else None
          end
      end
  end.

Definition ref_write (p : project) (m : mem) (r : request_ast) (v : rvalue) : option mem :=
  match resolve p r with
  | None => None
  | Some pl =>
      match mem_get m (place_inst pl) with
      | None => None
      | Some img =>
          match write_place p img pl (r_bit r) (r_count r) v with
          | Some img' => Some (mem_set m (place_inst pl) img')
          | None => None
          end
      end
  end.

(* ------------------------------------------------------------------ type names *)
Definition atom_name (c : Z) : option text :=
  let s := fun (x : text) => Some x in
  if c =? C_BOOL then s (zs "BOOL") else if c =? C_SINT then s (zs "SINT") else if c =? C_INT then s (zs "INT")
  else if c =? C_DINT then s (zs "DINT") else if c =? C_LINT then s (zs "LINT") else if c =? C_USINT then s (zs "USINT")
  else if c =? C_UINT then s (zs "UINT") else if c =? C_UDINT then s (zs "UDINT") else if c =? C_ULINT then s (zs "ULINT")
  else if c =? C_REAL then s (zs "REAL") else if c =? C_LREAL then s (zs "LREAL") else if c =? C_BYTE then s (zs "BYTE")
  else if c =? C_WORD then s (zs "WORD") else if c =? C_DWORD then s (zs "DWORD") else if c =? C_LWORD then s (zs "LWORD")
  else None.

Definition ty_name (p : project) (ty : base_ty) : option text :=
  match ty with
  | BAtom c => atom_name c
  | BStruct tid => match find_template (p_templates p) tid with Some t => Some (t_name t) | None => None end
  | BOpaque _ => None
  end.

(* element type name and element count (0 = a single value, not a list) of a valid request *)
Definition ref_type (p : project) (r : request_ast) : option (text * Z) :=
  let cnt := match r_count r with Some n => n | None => 0 end in
  match resolve p r with
  | None => None
  | Some (PlData _ _ ty _ _) =>
      match r_bit r with
      | Some _ => Some (zs "BOOL", 0)
      | None => match ty_name p ty with Some n => Some (n, cnt) | None => None end
      end
  | Some (PlBit _ _ _) => Some (zs "BOOL", 0)
  | Some (PlBools _ _ _ _) => Some (zs "BOOL", cnt)
  end.

(* ------------------------------------------------------------------ abstract view (C05) *)
Record vtag := mkVTag {
  vt_name : text;                 (* "Program:P.name" for program scope *)
  vt_inst : Z;
  vt_ty : base_ty;
  vt_bitpos : Z;
  vt_dims : list Z;
  vt_access : Z;
  vt_alias : bool;
  vt_attr3 : Z; vt_attr5 : Z; vt_attr6 : Z
}.
Record vmember := mkVMember {
  vm_name : text; vm_ty : base_ty; vm_arr : Z; vm_off : Z;
  vm_bit : option Z                (* Some b: a BOOL member, bit b of the byte at vm_off *)
}.
Record vtype := mkVType {
  vy_id : Z; vy_name : text; vy_handle : Z; vy_size : Z; vy_defsize : Z; vy_count : Z;
  vy_members : list vmember;       (* visible members, in order *)
  vy_string : option Z             (* LEN/DATA structure: string capacity = size - 4 *)
}.
Record vprogram := mkVProgram { vp_name : text; vp_inst : Z; vp_routines : list text }.
Record view := mkView { v_tags : list vtag; v_types : list vtype; v_programs : list vprogram;
                        v_tasks : list (text * Z) }.

Definition full_name (g : tagdef) : text :=
  match g_scope g with
  | ScCtrl => g_name g
  | ScProg pn => txt_Program ++ pn ++ [DOT] ++ g_name g
  end.

Definition view_tag (g : tagdef) : vtag :=
  mkVTag (full_name g) (g_inst g) (g_ty g) (g_bitpos g) (g_dims g) (g_access g) (alias_flag g)
         (g_attr3 g) (g_attr5 g) (g_attr6 g).

Definition view_member (m : member) : vmember :=
  mkVMember (m_name m) (m_ty m) (m_arr m) (m_off m) (if is_bool_member m then Some (m_bit m) else None).

Definition view_type (t : template) : vtype :=
  mkVType (t_id t) (t_name t) (t_handle t) (t_size t) (template_defsize t) (template_member_count t)
          (map view_member (visible_members t))
          (match string_shape t with Some _ => Some (t_size t - 4) | None => None end).

Definition struct_ids_of_members (t : template) : list Z :=
  flat_map (fun m => match m_ty m with BStruct tid => [tid] | _ => [] end) (t_members t).

Definition zmem (x : Z) (l : list Z) : bool := existsb (Z.eqb x) l.

(* template ids reachable from [seen] through members *)
Fixpoint reach (fuel : nat) (ts : list template) (seen : list Z) : list Z :=
  match fuel with
  | O => seen
  | S f =>
      let more := flat_map (fun t => if zmem (t_id t) seen then struct_ids_of_members t else []) ts in
      let new := filter (fun x => negb (zmem x seen)) more in
      match new with
      | [] => seen
      | _ => reach f ts (seen ++ nodup Z.eq_dec new)
      end
  end.

Definition visible_tags (p : project) : list tagdef := filter (fun g => negb (hidden_symbol g)) (p_tags p).

Definition routines_of (p : project) (pn : text) : list text :=
  flat_map (fun g => if scope_eqb (g_scope g) (ScProg pn) && starts_with txt_Routine (g_name g)
                     then [skipn 8 (g_name g)] else []) (p_tags p).

Definition abstract_view (p : project) : view :=
  let vis := visible_tags p in
  let roots := flat_map (fun g => match g_ty g with BStruct tid => [tid] | _ => [] end) vis in
  let ids := reach (S (length (p_templates p))) (p_templates p) (nodup Z.eq_dec roots) in
  mkView (map view_tag vis)
         (map view_type (filter (fun t => zmem (t_id t) ids) (p_templates p)))
         (flat_map (fun g => match is_program_symbol g with
                             | Some n => [mkVProgram n (g_inst g) (routines_of p n)]
                             | None => []
                             end) (p_tags p))
         (flat_map (fun g => match g_scope g with
                             | ScCtrl => if starts_with txt_Task (g_name g) then [(skipn 5 (g_name g), g_inst g)] else []
                             | _ => []
                             end) (p_tags p)).
