(* Spec/SlcDirSpec.v — the file-0 image of a controller's data-file directory, written from the
   layout (independent of Model/SlcDir.v: no model definition is used here).

   File 0 of an SLC / MicroLogix holds, after a family-specific header, one fixed-size row per file
   NUMBER, in file-number order: byte 0 = file type code, bytes 1-2 = file length in bytes
   (little-endian), the rest of the row is not interpreted.  A file number that is not in use
   holds a row of the reserved type 0x81.  Rows of other types (program files, ...) sit in the
   same area and do not take a data-file number.

   Families (catalog prefix): MicroLogix 1000 (1761), MicroLogix 1100/1200/1500 (1763/1762/1764),
   MicroLogix 1400 (1766), SLC 5/0x (anything else). *)
From PV Require Import Base.Bytes Base.PyStr.
Open Scope Z_scope.

Inductive family := MLX1000 | MLX1100 | MLX1400 | SLC50x.
Definition fam_position (f : family) : nat :=
  match f with MLX1000 => 93 | MLX1100 => 233 | MLX1400 => 233 | SLC50x => 79 end%nat.
Definition fam_row (f : family) : nat :=
  match f with MLX1000 => 8 | MLX1100 => 10 | MLX1400 => 10 | SLC50x => 10 end%nat.

(* catalog number -> family: the first four characters *)
Definition cat_1761 : text := [49; 55; 54; 49].
Definition cat_1100s : list text := [[49; 55; 54; 50]; [49; 55; 54; 51]; [49; 55; 54; 52]].
Definition cat_1766 : text := [49; 55; 54; 54].
Definition family_of_catalog (cat : text) : family :=
  let p := firstn 4 cat in
  if text_eqb p cat_1761 then MLX1000
  else if existsb (text_eqb p) cat_1100s then MLX1100
  else if text_eqb p cat_1766 then MLX1400
  else SLC50x.

(* data file types: letters, type code, bytes per element (DF1 manual 1770-6.5.16; pccc.py) *)
Inductive dtype := TN | TB | TT | TC | TS | TF | TST | TA | TR | TO | TI | TL | TMG | TPD | TPLS.
Definition all_dtypes : list dtype := [TN; TB; TT; TC; TS; TF; TST; TA; TR; TO; TI; TL; TMG; TPD; TPLS].
Definition type_letters (t : dtype) : text :=
  match t with
  | TN => [78] | TB => [66] | TT => [84] | TC => [67] | TS => [83] | TF => [70] | TST => [83; 84]
  | TA => [65] | TR => [82] | TO => [79] | TI => [73] | TL => [76] | TMG => [77; 71]
  | TPD => [80; 68] | TPLS => [80; 76; 83]
  end.
Definition type_code (t : dtype) : Z :=
  match t with
  | TN => 137 | TB => 133 | TT => 134 | TC => 135 | TS => 132 | TF => 138 | TST => 141
  | TA => 142 | TR => 136 | TO => 130 | TI => 131 | TL => 145 | TMG => 146 | TPD => 147 | TPLS => 148
  end.
Definition elem_size (t : dtype) : Z :=
  match t with
  | TN => 2 | TB => 2 | TT => 6 | TC => 6 | TS => 2 | TF => 4 | TST => 84 | TA => 2 | TR => 6
  | TO => 2 | TI => 2 | TL => 4 | TMG => 50 | TPD => 46 | TPLS => 12
  end.
Definition RESERVED_CODE : Z := 129.
Definition is_known_code (c : Z) : bool := existsb (fun t => type_code t =? c) all_dtypes.

(* ------------------------------------------------------------------ rows *)
Inductive row :=
  | RFile (t : dtype) (elements : Z) (fill : bytes)
  | RReserved (fill : bytes)
  | RForeign (code : Z) (fill : bytes).

Definition row_bytes (r : row) : bytes :=
  match r with
  | RFile t e fill => let len := e * elem_size t in type_code t :: (len mod 256) :: (len / 256) :: fill
  | RReserved fill => RESERVED_CODE :: fill
  | RForeign c fill => c :: fill
  end.

(* the well-formedness domain: every row has the family's row size; a file's length fits the
   16-bit field; a foreign row's type byte is a byte that is neither a data-file type nor 0x81 *)
Definition wf_row (rs : nat) (r : row) : Prop :=
  length (row_bytes r) = rs /\
  match r with
  | RFile t e _ => 0 <= e /\ e * elem_size t < 65536
  | RReserved _ => True
  | RForeign c _ => 0 <= c < 256 /\ is_known_code c = false /\ c <> RESERVED_CODE
  end.

Definition encode_rows (hdr : bytes) (rows : list row) : bytes := hdr ++ flat_map row_bytes rows.

(* what the directory says: name = letters + decimal file number, element count, length *)
Definition dir_entry := (text * (Z * Z))%type.
Definition entry_of (t : dtype) (num elements : Z) : dir_entry :=
  (type_letters t ++ py_str_int num, (elements, elements * elem_size t)).

Fixpoint number_rows (next : Z) (rows : list row) : list dir_entry :=
  match rows with
  | [] => []
  | RFile t e _ :: r => entry_of t next e :: number_rows (next + 1) r
  | RReserved _ :: r => number_rows (next + 1) r
  | RForeign _ _ :: r => number_rows next r
  end.

(* ------------------------------------------------------------------ directories as file lists *)
Record dfile := { d_type : dtype; d_num : Z; d_elements : Z }.

(* file numbers strictly increasing from [next]; lengths within the field *)
Fixpoint wf_files (next : Z) (fs : list dfile) : Prop :=
  match fs with
  | [] => True
  | f :: r => next <= d_num f /\ 0 <= d_elements f /\ d_elements f * elem_size (d_type f) < 65536
              /\ wf_files (d_num f + 1) r
  end.

(* unused file numbers below a file are reserved rows; the uninterpreted bytes are zero *)
Fixpoint rows_of_files (rs : nat) (next : Z) (fs : list dfile) : list row :=
  match fs with
  | [] => []
  | f :: r => repeat (RReserved (zeros (rs - 1))) (Z.to_nat (d_num f - next))
              ++ RFile (d_type f) (d_elements f) (zeros (rs - 3)) :: rows_of_files rs (d_num f + 1) r
  end.

(* the image: [hdr] is the family header (any content of the family's length) *)
Definition encode_dir (fam : family) (hdr : bytes) (fs : list dfile) : bytes :=
  encode_rows hdr (rows_of_files (fam_row fam) 0 fs).

Definition dir_view (fs : list dfile) : list dir_entry :=
  map (fun f => entry_of (d_type f) (d_num f) (d_elements f)) fs.

(* ------------------------------------------------------------------ reads of the image *)
(* a read = (size in bytes, offset in 16-bit words), as the PCCC command carries them.  The reads
   tile [start, total): each begins where the previous one ended and none is empty *)
Fixpoint tiles (start : Z) (reads : list (Z * Z)) (total : Z) : Prop :=
  match reads with
  | [] => start = total
  | (size, off) :: r => 0 < size /\ 2 * off = start /\ tiles (start + size) r total
  end.

(* what the controller holding [image] answers to one read *)
Definition serve_image (image : bytes) (size off : Z) : option bytes :=
  Some (firstn (Z.to_nat size) (skipn (Z.to_nat (2 * off)) image)).

Definition served (image : bytes) (reads : list (Z * Z)) : bytes :=
  flat_map (fun so => firstn (Z.to_nat (fst so)) (skipn (Z.to_nat (2 * snd so)) image)) reads.
