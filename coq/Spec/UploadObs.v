(* Spec/UploadObs.v — what an upload must SHOW, in the terms a client dictionary can express
   (C05): the rendering of [Expect.abstract_view] into observations.  Written from the project
   side only (Spec/Project.v, Spec/Expect.v, the Logix Data Access manual); nothing here looks at
   pycomm3 or at its model.  Definitions only.

   Differences between the view and an observation, all forced by what a client can say:
   * a nested structure is shown as its DEFINITION (name, handle, sizes, visible members ...), not
     as a template id: a client's member entry holds the nested dict, and the dict has no id;
   * external access is the manual's word for the code (0 Read/Write, 1 Reserved, 2 Read Only,
     3 None), and is not observable at all before firmware 18 (no attribute 10);
   * the built-in string type ASCIISTRING82 is shown under its documented name STRING;
   * a BOOL tag shows its bit position, other tags show none;
   * a string type shows (length of DATA, size of the character area = structure size - 4,
     capacity = length of DATA). *)
From PV Require Import Base.Bytes Base.PyStr Spec.Project Spec.Expect.
Open Scope Z_scope.

(* a structure definition as observed: name, handle, structure size, definition size, member
   count, names of the visible members, the visible members (name, type, array length, offset,
   bit), string information *)
Inductive odef :=
  MkODef (name : option text) (handle size defsize count : Z) (attrs : list text)
         (members : list (text * (Z + odef) * Z * Z * option Z))
         (str : option (Z * Z * Z)).
Definition oty := (Z + odef)%type.

Record otag := mkOTag {
  ot_name : text; ot_inst : Z;
  ot_ty : oty;                 (* inl code | inr definition *)
  ot_tyname : option text;     (* the name of the data type *)
  ot_tid : option Z;           (* structure tags: the template instance id *)
  ot_bitpos : option Z;        (* BOOL tags *)
  ot_dims : list Z;
  ot_access : option text;     (* None: not observable (firmware < 18) *)
  ot_alias : bool;
  ot_a3 : Z; ot_a5 : Z; ot_a6 : Z
}.

Record oview := mkOView {
  ov_tags : list otag;                             (* keyed by name *)
  ov_types : list odef;                            (* keyed by name *)
  ov_programs : list (text * Z * list text);       (* name, instance id, routines *)
  ov_tasks : list (text * Z)
}.

(* ---------------------------------------------------------------- names *)
Definition txt_ASCIISTRING82 : text := [65;83;67;73;73;83;84;82;73;78;71;56;50].
Definition txt_STRING : text := [83;84;82;73;78;71].
Definition display_name (n : text) : text := if text_eqb n txt_ASCIISTRING82 then txt_STRING else n.

Definition access_word (a : Z) : text :=
  if a =? 0 then [82;101;97;100;47;87;114;105;116;101]           (* Read/Write *)
  else if a =? 1 then [82;101;115;101;114;118;101;100]            (* Reserved *)
  else if a =? 2 then [82;101;97;100;32;79;110;108;121]           (* Read Only *)
  else if a =? 3 then [78;111;110;101]                            (* None *)
  else [85;110;107;110;111;119;110].                              (* Unknown *)

(* ---------------------------------------------------------------- definitions *)
Fixpoint find_vtype (ts : list vtype) (tid : Z) : option vtype :=
  match ts with
  | [] => None
  | t :: r => if vy_id t =? tid then Some t else find_vtype r tid
  end.

Definition data_length (ms : list vmember) : Z :=
  match filter (fun m => text_eqb (vm_name m) txt_DATA) ms with m :: _ => vm_arr m | [] => 0 end.

(* the definition of structure [tid] with its nested definitions; None when a definition it needs
   is not among [types] (the view lists every reachable type, so this does not happen for the
   types of a view: Proofs/UploadReach.v) *)
Fixpoint odef_of (fuel : nat) (types : list vtype) (tid : Z) : option odef :=
  match fuel with
  | O => None
  | S f =>
      match find_vtype types tid with
      | None => None
      | Some y =>
          match all_some (map (fun m =>
                                 match vm_ty m with
                                 | BAtom c => Some (vm_name m, inl c, vm_arr m, vm_off m, vm_bit m)
                                 | BStruct t =>
                                     match odef_of f types t with
                                     | Some d => Some (vm_name m, inr d, vm_arr m, vm_off m, vm_bit m)
                                     | None => None
                                     end
                                 | BOpaque _ => None
                                 end) (vy_members y)) with
          | None => None
          | Some ms =>
              Some (MkODef (Some (display_name (vy_name y))) (vy_handle y) (vy_size y) (vy_defsize y) (vy_count y)
                           (map vm_name (vy_members y)) ms
                           (match vy_string y with
                            | Some area => Some (data_length (vy_members y), area, data_length (vy_members y))
                            | None => None
                            end))
          end
      end
  end.

Definition otag_of (with_access : bool) (types : list vtype) (t : vtag) : option otag :=
  let mk (ty : oty) (tyname : option text) (tid : option Z) (bp : option Z) :=
    mkOTag (vt_name t) (vt_inst t) ty tyname tid bp (vt_dims t)
           (if with_access then Some (access_word (vt_access t)) else None)
           (vt_alias t) (vt_attr3 t) (vt_attr5 t) (vt_attr6 t) in
  match vt_ty t with
  | BAtom c => Some (mk (inl c) (atom_name c) None (if c =? C_BOOL then Some (vt_bitpos t) else None))
  | BStruct tid =>
      match odef_of (S (length types)) types tid with
      | Some d => Some (mk (inr d) (let '(MkODef n _ _ _ _ _ _ _) := d in n) (Some tid) None)
      | None => None
      end
  | BOpaque _ => None
  end.

(* the whole view as observations *)
Definition obs_of_view (with_access : bool) (v : view) : option oview :=
  match all_some (map (otag_of with_access (v_types v)) (v_tags v)),
        all_some (map (fun y => odef_of (S (length (v_types v))) (v_types v) (vy_id y)) (v_types v)) with
  | Some ts, Some ds =>
      Some (mkOView ts ds (map (fun p => (vp_name p, vp_inst p, vp_routines p)) (v_programs v)) (v_tasks v))
  | _, _ => None
  end.

(* an upload of the controller scope alone (get_tag_list(None), init_program_tags=False) must show
   the view of the project WITHOUT its program scopes: the controller-scoped user tags, the types
   they reach, the programs and tasks (their symbols are controller-scoped), no routines (routine
   symbols live in the program scopes) *)
Definition controller_scope (p : project) : project :=
  mkProject (p_templates p) (filter (fun g => match g_scope g with ScCtrl => true | ScProg _ => false end) (p_tags p)).

(* ---------------------------------------------------------------- comparison (computable) *)
Definition oz_eqb (a b : option Z) : bool :=
  match a, b with Some x, Some y => x =? y | None, None => true | _, _ => false end.
Definition ot_eqb (a b : option text) : bool :=
  match a, b with Some x, Some y => text_eqb x y | None, None => true | _, _ => false end.
Fixpoint list_eqb {A} (eqb : A -> A -> bool) (a b : list A) : bool :=
  match a, b with
  | [], [] => true
  | x :: a', y :: b' => eqb x y && list_eqb eqb a' b'
  | _, _ => false
  end.

Fixpoint odef_eqb (a b : odef) : bool :=
  match a, b with
  | MkODef n h s d c at_ ms str, MkODef n' h' s' d' c' at' ms' str' =>
      ot_eqb n n' && (h =? h') && (s =? s') && (d =? d') && (c =? c') && list_eqb text_eqb at_ at'
      && (fix go (l l' : list (text * (Z + odef) * Z * Z * option Z)) : bool :=
            match l, l' with
            | [], [] => true
            | (nm, ty, ar, off, bt) :: r, (nm', ty', ar', off', bt') :: r' =>
                text_eqb nm nm'
                && (match ty, ty' with
                    | inl x, inl y => x =? y
                    | inr x, inr y => odef_eqb x y
                    | _, _ => false
                    end)
                && (ar =? ar') && (off =? off') && oz_eqb bt bt' && go r r'
            | _, _ => false
            end) ms ms'
      && (match str, str' with
          | Some (x, y, z), Some (x', y', z') => (x =? x') && (y =? y') && (z =? z')
          | None, None => true
          | _, _ => false
          end)
  end.

Definition oty_eqb (a b : oty) : bool :=
  match a, b with
  | inl x, inl y => x =? y
  | inr x, inr y => odef_eqb x y
  | _, _ => false
  end.

Definition otag_eqb (a b : otag) : bool :=
  text_eqb (ot_name a) (ot_name b) && (ot_inst a =? ot_inst b) && oty_eqb (ot_ty a) (ot_ty b)
  && ot_eqb (ot_tyname a) (ot_tyname b) && oz_eqb (ot_tid a) (ot_tid b) && oz_eqb (ot_bitpos a) (ot_bitpos b)
  && list_eqb Z.eqb (ot_dims a) (ot_dims b) && ot_eqb (ot_access a) (ot_access b)
  && Bool.eqb (ot_alias a) (ot_alias b) && (ot_a3 a =? ot_a3 b) && (ot_a5 a =? ot_a5 b) && (ot_a6 a =? ot_a6 b).

(* same elements, whatever the order (the client keeps dictionaries keyed by name) *)
Definition same_set_b {A} (eqb : A -> A -> bool) (a b : list A) : bool :=
  Nat.eqb (length a) (length b)
  && forallb (fun x => existsb (eqb x) b) a && forallb (fun y => existsb (fun x => eqb x y) a) b.

Definition oview_eqb (a b : oview) : bool :=
  same_set_b otag_eqb (ov_tags a) (ov_tags b)
  && same_set_b odef_eqb (ov_types a) (ov_types b)
  && list_eqb (fun x y => text_eqb (fst (fst x)) (fst (fst y)) && (snd (fst x) =? snd (fst y))
                          && list_eqb text_eqb (snd x) (snd y)) (ov_programs a) (ov_programs b)
  && list_eqb (fun x y => text_eqb (fst x) (fst y) && (snd x =? snd y)) (ov_tasks a) (ov_tasks b).
